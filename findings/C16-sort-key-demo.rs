    // Demonstration on the real overlay_feature_variations (append inside `mod tests` of
    // fontir/src/feature_variations.rs; run: cargo test --offline -p fontir --lib c16_sort_key_demo).
    //
    // 65 rules: rule 0 on wght, 63 disjoint filler rules on wght far away, rule 64 on wdth.
    // At (wght 0.7, wdth 0.5) both rule 0 and rule 64 apply.  The overlay produces the box
    // {wght .5-.9, wdth .2-.8} with rank {0,64} (TWO words) and keeps the remainder
    // {wght .5-.9} with rank {0} (ONE word); the two boxes overlap, so "first matching box
    // wins" needs the richer box first.  Sorting by count_zeros puts the one-word rank first.
    #[test]
    fn c16_sort_key_demo_rule_64_lost_where_it_overlaps_an_early_rule() {
        fn first_match<'a>(
            loc: &[(&str, f64)],
            overlaps: &'a [(NBox, Vec<BTreeMap<GlyphName, GlyphName>>)],
        ) -> Vec<String> {
            for (nbox, substitutions) in overlaps {
                let inside = nbox.iter().all(|(tag, (lo, hi))| {
                    let v = loc
                        .iter()
                        .find(|(t, _)| Tag::from_str(t).unwrap() == tag)
                        .map(|(_, v)| *v)
                        .unwrap_or(0.0);
                    lo.to_f64() <= v && v <= hi.to_f64()
                });
                if inside {
                    let mut merged: Vec<String> = substitutions
                        .iter()
                        .flat_map(|s| s.keys())
                        .map(|g| g.as_str().to_string())
                        .collect();
                    merged.sort();
                    return merged;
                }
            }
            Vec::new()
        }

        let names: Vec<String> = (0..65).map(|i| format!("g{i}")).collect();
        let mut conds = Vec::new();
        conds.push(make_overlay_input(&[&[("wght", (0.5, 0.9))]], &[(names[0].as_str(), "x")]));
        for i in 1..64 {
            let lo = -1.0 + 0.02 * i as f64;
            conds.push(make_overlay_input(&[&[("wght", (lo, lo + 0.01))]], &[(names[i].as_str(), "x")]));
        }
        conds.push(make_overlay_input(&[&[("wdth", (0.2, 0.8))]], &[(names[64].as_str(), "x")]));

        let overlaps = overlay_feature_variations(conds);
        // both rule 0 (wght in .5-.9) and rule 64 (wdth in .2-.8) contain the point
        assert_eq!(first_match(&[("wght", 0.7), ("wdth", 0.5)], &overlaps), ["g0", "g64"]);
        // sanity: only rule 0 / only rule 64
        assert_eq!(first_match(&[("wght", 0.7), ("wdth", 0.9)], &overlaps), ["g0"]);
        assert_eq!(first_match(&[("wght", 0.35), ("wdth", 0.5)], &overlaps), ["g64"]);
    }
