"""Shared machinery for /verif checks: scratch copy of /repo, contract injection,
Kani driver (run, parse, timeout/RSS watchdog, concrete playback + native replay),
known-findings matching, evidence writing.

Nothing here fuzzes or samples: every verdict comes from a verifier run on the
real source text of /repo (copied and annotated on every run).
"""
from __future__ import annotations

import atexit
import json
import os
import re
import shutil
import signal
import subprocess
import sys
import threading
import time
from pathlib import Path

VERIF = Path(__file__).resolve().parents[2]
REPO = Path(os.environ.get("FV_REPO", "/repo"))
CONTRACTS = VERIF / "contracts"
# FV_OUT (self-test / mutation runs only) redirects evidence and replay output so that runs against a
# mutated copy never overwrite the evidence of /repo itself
_OUT = Path(os.environ["FV_OUT"]) if os.environ.get("FV_OUT") else VERIF
EVIDENCE = _OUT / "evidence"
REPLAY = _OUT / "replay"

KANI_FLAGS = ["-Z", "stubbing", "-Z", "function-contracts", "-Z", "unstable-options"]
RSS_LIMIT_KB = int(os.environ.get("FV_RSS_LIMIT_GB", "12")) * 1024 * 1024

OFFLINE_ENV = {
    "CARGO_NET_OFFLINE": "true",
    "CARGO_TERM_COLOR": "never",
}


def log(msg: str) -> None:
    print(f"[fv] {msg}", file=sys.stderr, flush=True)


# --------------------------------------------------------------------------------------
# scratch copy
# --------------------------------------------------------------------------------------
class Scratch:
    """A copy of /repo's *current working tree* (sources only) that is annotated and built.

    FV_SCRATCH=<dir> (development only) keeps and reuses the directory so cargo can
    rebuild incrementally; by default a fresh directory is used and removed at exit.
    """

    def __init__(self) -> None:
        keep = os.environ.get("FV_SCRATCH")
        self.keep = bool(keep)
        self.root = Path(keep) if keep else Path(f"/var/tmp/fontc-verif.{os.getpid()}")
        self.repo = self.root / "repo"
        self.root.mkdir(parents=True, exist_ok=True)
        if not self.keep:
            atexit.register(self.cleanup)
            for sig in (signal.SIGTERM, signal.SIGINT, signal.SIGHUP):
                signal.signal(sig, self._on_signal)
        self.sync()

    def _on_signal(self, signum, _frame):
        self.cleanup()
        os._exit(128 + signum)

    def sync(self) -> None:
        t0 = time.time()
        subprocess.run(
            ["rsync", "-a", "--delete", "--exclude", "/target", "--exclude", ".git", f"{REPO}/", f"{self.repo}/"],
            check=True,
        )
        log(f"copied {REPO} working tree -> {self.repo} ({time.time() - t0:.1f}s)")

    def cleanup(self) -> None:
        if self.keep:
            return
        shutil.rmtree(self.root, ignore_errors=True)


class AnchorLost(Exception):
    pass


def inject_kani(scratch: Scratch, only_crates: set[str] | None = None) -> tuple[list[dict], dict[str, str]]:
    """Append contracts/kani/*.inject to the real file each names (a__b__c.rs.inject -> a/b/c.rs).
    No existing line of the real file is modified.  Lines of the form `//@anchor <regex>` in the
    inject file must match the real file exactly once; otherwise the code has changed shape under
    the contract: that file is NOT injected and its units are UNDECIDED (never an alarm).
    Returns (injected, lost) where lost maps file -> reason."""
    done = []
    lost: dict[str, str] = {}
    for inj in sorted((CONTRACTS / "kani").glob("*.inject")):
        rel = inj.name[: -len(".inject")].replace("__", "/")
        crate = rel.split("/")[0]
        if only_crates is not None and crate not in only_crates:
            continue
        target = scratch.repo / rel
        if not (REPO / rel).exists():
            lost[rel] = "file no longer exists"
            continue
        real = (REPO / rel).read_text()
        text = inj.read_text()
        bad = None
        for m in re.finditer(r"^//@anchor (.+)$", text, re.M):
            pat = m.group(1).strip()
            n = len(re.findall(pat, real, re.M))
            if n != 1:
                bad = f"anchor /{pat}/ matches {n} times (expected 1)"
                break
        if bad:
            lost[rel] = bad
            continue
        target.write_text(real + "\n" + text)
        done.append({"file": rel, "inject": str(inj.relative_to(VERIF)), "lines_appended": text.count("\n")})
    return done, lost


# --------------------------------------------------------------------------------------
# Kani driver
# --------------------------------------------------------------------------------------
def _rss_watchdog(stop: threading.Event, root_pid: int, killed: list) -> None:
    while not stop.wait(2.0):
        try:
            out = subprocess.run(["ps", "-eo", "pid,ppid,rss,comm"], capture_output=True, text=True).stdout
        except Exception:
            continue
        procs = {}
        for line in out.splitlines()[1:]:
            parts = line.split(None, 3)
            if len(parts) < 4:
                continue
            pid, ppid, rss, comm = int(parts[0]), int(parts[1]), int(parts[2]), parts[3]
            procs[pid] = (ppid, rss, comm)

        def descends(pid: int) -> bool:
            seen = 0
            while pid in procs and seen < 64:
                if pid == root_pid:
                    return True
                pid = procs[pid][0]
                seen += 1
            return False

        for pid, (ppid, rss, comm) in procs.items():
            if rss > RSS_LIMIT_KB and comm.startswith(("cbmc", "goto-", "kani", "z3", "cadical", "kissat")) and descends(pid):
                try:
                    os.kill(pid, signal.SIGKILL)
                    killed.append({"pid": pid, "comm": comm, "rss_kb": rss})
                    log(f"RSS watchdog killed {comm} pid={pid} rss={rss // 1024} MB")
                except ProcessLookupError:
                    pass


_RE_CHECKING = re.compile(r"^Thread (\d+): Checking harness (\S+?)\.\.\.\s*$")
_RE_STUB = re.compile(r"^Thread (\d+):\s+- Stub: (.+)$")
_RE_THREAD_BLOCK = re.compile(r"^Thread (\d+):\s*$")
_RE_SUMMARY = re.compile(r"\*\* (\d+) of (\d+) failed")
_RE_COVER = re.compile(r"\*\* (\d+) of (\d+) cover properties satisfied")
_RE_TIME = re.compile(r"Verification Time: ([0-9.]+)s")

# failed-check descriptions that mean "the verifier could not decide", not "the code is wrong"
_UNDECIDED_CHECKS = (
    "unwinding assertion",
    "is not currently supported by Kani",
    "unsupported construct",
    "recursion unwinding assertion",
)


def parse_kani_terse(output: str) -> dict[str, dict]:
    """Parse `cargo kani -j N --output-format=terse` output into per-harness records."""
    by_thread: dict[str, str] = {}
    res: dict[str, dict] = {}
    lines = output.splitlines()
    i = 0
    cur = None
    while i < len(lines):
        ln = lines[i]
        m = _RE_CHECKING.match(ln)
        if m:
            by_thread[m.group(1)] = m.group(2)
            res[m.group(2)] = {"harness": m.group(2), "stubs": [], "status": "undecided", "reason": "no result block", "failed_checks": [], "raw": ""}
            i += 1
            continue
        m = _RE_STUB.match(ln)
        if m and m.group(1) in by_thread:
            res[by_thread[m.group(1)]]["stubs"].append(m.group(2).strip())
            i += 1
            continue
        m = _RE_THREAD_BLOCK.match(ln)
        if m and m.group(1) in by_thread:
            cur = res[by_thread[m.group(1)]]
            block = []
            i += 1
            while i < len(lines) and not lines[i].startswith("Thread ") and not lines[i].startswith("Manual Harness Summary") and not lines[i].startswith("Complete - "):
                block.append(lines[i])
                i += 1
            _fill_result(cur, "\n".join(block))
            continue
        i += 1
    return res


def _fill_result(rec: dict, block: str) -> None:
    rec["raw"] = block
    m = _RE_SUMMARY.search(block)
    if m:
        rec["checks_failed"], rec["checks_total"] = int(m.group(1)), int(m.group(2))
    m = _RE_COVER.search(block)
    if m:
        rec["cover_satisfied"], rec["cover_total"] = int(m.group(1)), int(m.group(2))
    m = _RE_TIME.search(block)
    if m:
        rec["solver_s"] = float(m.group(1))
    fcs = []
    blines = block.splitlines()
    for k, bl in enumerate(blines):
        if bl.startswith("Failed Checks:"):
            desc = bl[len("Failed Checks:"):].strip()
            loc = blines[k + 1].strip() if k + 1 < len(blines) and blines[k + 1].lstrip().startswith("File:") else ""
            fcs.append({"description": desc, "location": loc})
    rec["failed_checks"] = fcs
    if "VERIFICATION:- SUCCESSFUL" in block:
        if rec.get("checks_total", 0) == 0 and rec.get("cover_total", 0) == 0:
            rec["status"], rec["reason"] = "undecided", "zero checks generated (vacuous)"
        else:
            rec["status"], rec["reason"] = "verified", ""
    elif "VERIFICATION:- FAILED" in block:
        if "timed out" in block:
            rec["status"], rec["reason"] = "undecided", "CBMC timed out"
        elif "not currently supported by Kani was found to be reachable" in block or any("not currently supported by Kani" in fc["description"] for fc in fcs):
            rec["status"], rec["reason"] = "undecided", "a construct Kani does not support is reachable (its other reported failures are not trustworthy)"
        elif not fcs:
            rec["status"], rec["reason"] = "undecided", "CBMC failed without a failed check (crash / killed / out of memory)"
        elif all(any(u in fc["description"] for u in _UNDECIDED_CHECKS) for fc in fcs):
            rec["status"], rec["reason"] = "undecided", "only unwinding/unsupported-construct checks failed: " + "; ".join(fc["description"] for fc in fcs)
        else:
            rec["status"], rec["reason"] = "failed", ""
            rec["failed_checks"] = [fc for fc in fcs if not any(u in fc["description"] for u in _UNDECIDED_CHECKS)] or fcs
    else:
        rec["status"], rec["reason"] = "undecided", "no verdict in output"


def kani_cmd(crate: str, harnesses: list[str], timeout_s: int, jobs: int, extra: list[str] | None = None) -> list[str]:
    cmd = ["cargo", "kani", "-p", crate] + KANI_FLAGS + ["--harness-timeout", f"{timeout_s}s", "-j", str(jobs), "--output-format=terse"]
    for c in CRATE_EXTRA.get(crate, []):
        cmd.append(c)
    for h in harnesses:
        cmd += ["--harness", h]
    if extra:
        cmd += extra
    return cmd


# per-crate extra cargo-kani arguments (fea-rs has a bin target that needs a feature)
CRATE_EXTRA: dict[str, list[str]] = {
    "fea-rs": ["--lib"],
}


def run_kani(scratch: Scratch, crate: str, harnesses: list[str], timeout_s: int, jobs: int = 8) -> tuple[dict[str, dict], dict]:
    """Run the named harnesses of one crate. Returns (per-harness records keyed by short name, meta)."""
    cmd = kani_cmd(crate, harnesses, timeout_s, jobs)
    env = dict(os.environ, **OFFLINE_ENV)
    t0 = time.time()
    log("$ " + " ".join(cmd))
    proc = subprocess.Popen(cmd, cwd=scratch.repo, env=env, stdout=subprocess.PIPE, stderr=subprocess.STDOUT, text=True, start_new_session=True)
    stop = threading.Event()
    killed: list = []
    wd = threading.Thread(target=_rss_watchdog, args=(stop, proc.pid, killed), daemon=True)
    wd.start()
    # overall guard: build (<= 10 min) + every harness in sequence in the worst case
    overall = 900 + timeout_s * max(1, (len(harnesses) + jobs - 1) // jobs) + 120
    try:
        out, _ = proc.communicate(timeout=overall)
    except subprocess.TimeoutExpired:
        os.killpg(proc.pid, signal.SIGKILL)
        out, _ = proc.communicate()
        out += "\n[fv] overall timeout: killed\n"
    stop.set()
    wall = time.time() - t0
    parsed = parse_kani_terse(out)
    # map fully qualified names back to the short names requested
    recs: dict[str, dict] = {}
    for h in harnesses:
        hits = [r for name, r in parsed.items() if name.split("::")[-1] == h]
        if len(hits) == 1:
            recs[h] = hits[0]
        elif not hits:
            reason = "harness not found in Kani output"
            if re.search(r"^error(\[E\d+\])?:", out, re.M):
                errs = re.findall(r"^error(?:\[E\d+\])?: .*$", out, re.M)[:3]
                reason = "build failed: " + " | ".join(errs)
            recs[h] = {"harness": h, "status": "undecided", "reason": reason, "failed_checks": [], "stubs": [], "raw": ""}
        else:
            recs[h] = {"harness": h, "status": "undecided", "reason": "ambiguous harness name", "failed_checks": [], "stubs": [], "raw": ""}
    if killed:
        for r in recs.values():
            if r["status"] == "undecided" and "crash" in r.get("reason", ""):
                r["reason"] = f"RSS watchdog killed the solver (> {RSS_LIMIT_KB // 1024 // 1024} GB)"
    m = re.search(r"Finished `dev` profile.* in ([0-9.]+)s", out)
    meta = {"cmd": "CARGO_NET_OFFLINE=true " + " ".join(cmd), "wall_s": round(wall, 1), "build_s": float(m.group(1)) if m else None, "rss_killed": killed, "output_tail": out[-6000:]}
    return recs, meta


_RE_PLAYBACK = re.compile(r"Concrete playback unit test for `([^`]+)`:\s*```\n(.*?)```", re.S)


def kani_playback(scratch: Scratch, crate: str, harness: str, src_rel: str, timeout_s: int = 900) -> dict:
    """Re-run one failing harness asking CBMC for a counterexample, then execute the real
    function natively (rustc-compiled test binary, no CBMC) on that counterexample."""
    env = dict(os.environ, **OFFLINE_ENV)
    cmd = ["cargo", "kani", "-p", crate] + KANI_FLAGS + CRATE_EXTRA.get(crate, []) + ["-Z", "concrete-playback", "--concrete-playback=print", "--harness-timeout", f"{timeout_s}s", "--harness", harness]
    log("$ " + " ".join(cmd))
    p = subprocess.run(cmd, cwd=scratch.repo, env=env, capture_output=True, text=True, timeout=timeout_s + 900)
    out = p.stdout + p.stderr
    info: dict = {"playback_cmd": "CARGO_NET_OFFLINE=true " + " ".join(cmd), "unit_test": None, "concrete_vals": None, "native": None}
    m = None
    for mm in _RE_PLAYBACK.finditer(out):
        if mm.group(1).split("::")[-1] == harness:
            m = mm
            break
    if not m:
        info["note"] = "Kani produced no concrete playback test (no counterexample values)"
        info["kani_output_tail"] = out[-3000:]
        return info
    test_src = m.group(2)
    info["unit_test"] = test_src
    vals = re.findall(r"vec!\[([0-9, ]*)\],", test_src)
    info["concrete_vals"] = [[int(x) for x in v.split(",") if x.strip()] for v in vals]
    info["native"] = native_replay(scratch, crate, src_rel, test_src)
    return info


def native_replay(scratch: Scratch, crate: str, src_rel: str, test_src: str) -> dict:
    """Insert the generated #[test] into the injected module of the scratch copy and run it with
    `cargo kani playback` (a plain native test run of the real code; kani::any() yields the
    recorded bytes)."""
    env = dict(os.environ, **OFFLINE_ENV)
    path = scratch.repo / src_rel
    text = path.read_text()
    marker = "// @@FV-PLAYBACK-TESTS@@"
    if marker not in text:
        return {"ran": False, "note": f"no playback marker in injected module of {src_rel}"}
    mname = re.search(r"fn (kani_concrete_playback_\w+)\(", test_src)
    if not mname:
        return {"ran": False, "note": "could not find test name"}
    path.write_text(text.replace(marker, test_src + "\n" + marker, 1))
    cmd = ["cargo", "kani", "playback", "-Z", "concrete-playback", "-p", crate] + CRATE_EXTRA.get(crate, []) + ["--", mname.group(1)]
    log("$ " + " ".join(cmd))
    try:
        p = subprocess.run(cmd, cwd=scratch.repo, env=env, capture_output=True, text=True, timeout=1800)
    finally:
        path.write_text(text)
    out = p.stdout + p.stderr
    panics = re.findall(r"panicked at ([^\n]+)\n([^\n]+)", out)
    failed = bool(re.search(r"test result: FAILED", out))
    passed = bool(re.search(r"test result: ok\. 1 passed", out))
    return {
        "ran": failed or passed,
        "cmd": "CARGO_NET_OFFLINE=true " + " ".join(cmd),
        "reproduced": failed,
        "panic": [{"at": a.strip(), "message": b.strip()} for a, b in panics][:3],
        "output_tail": out[-2500:] if not (failed or passed) else "",
    }


# --------------------------------------------------------------------------------------
# known findings
# --------------------------------------------------------------------------------------
def load_known() -> list[dict]:
    p = VERIF / "known_findings.json"
    if not p.exists():
        return []
    return [e for e in json.loads(p.read_text()).get("findings", []) if e.get("status") == "known"]


def match_known(known: list[dict], prop: str, obligation: str, failed_checks: list[dict], concrete_vals) -> dict | None:
    """A failure matches a known finding only if property, obligation, the failing check
    description AND (when recorded) the concrete failing input all agree."""
    for e in known:
        if e.get("property") != prop or e.get("obligation") != obligation:
            continue
        want = e.get("failed_check_contains")
        if want and not any(want in fc.get("description", "") for fc in failed_checks):
            continue
        if e.get("concrete_vals") is not None and concrete_vals is not None and e["concrete_vals"] != concrete_vals:
            continue
        return e
    return None


# --------------------------------------------------------------------------------------
# mechanical scan of generated artefacts for unchecked assumptions
# --------------------------------------------------------------------------------------
_SCAN = ["kani::assume(", "kani::stub(", "external_body", "assume_specification", "admit(", "assume(", "#[verifier::external", "unsafe "]


def scan_assumptions(texts: dict[str, str]) -> dict[str, dict[str, int]]:
    out = {}
    for name, t in texts.items():
        counts = {k: t.count(k) for k in _SCAN if t.count(k)}
        # "assume(" also counts kani::assume( ; report the remainder separately
        if "assume(" in counts and "kani::assume(" in counts:
            rest = counts["assume("] - counts["kani::assume("]
            if rest:
                counts["assume( (non-kani)"] = rest
            del counts["assume("]
        out[name] = counts
    return out


def write_json(path: Path, obj) -> None:
    path.parent.mkdir(parents=True, exist_ok=True)
    tmp = path.with_suffix(path.suffix + ".tmp")
    tmp.write_text(json.dumps(obj, indent=1, sort_keys=False) + "\n")
    tmp.replace(path)
