"""Verus route: mechanical extraction of the FEA lexer from /repo, contract splicing, run, parse.

The verified text is produced on every run from the *current* fea-rs/src/parse/lexer.rs and
lexer/lexeme.rs by a fixed list of logged rewrites (each with an expected match count; a
different count means the code changed shape -> UNDECIDED, never a guess).  The unified diff
"shipped text vs verified text" is written next to the evidence so anyone can see that they
differ by exactly the logged hunks plus the spliced contract clauses.
"""
from __future__ import annotations

import difflib
import json
import re
import subprocess
import sys
import time
from pathlib import Path

from . import core

LEXER = "fea-rs/src/parse/lexer.rs"
LEXEME = "fea-rs/src/parse/lexer/lexeme.rs"


class ShapeChanged(Exception):
    pass


def _sub(text: str, pat: str, repl, expect, log: list, what: str, flags=re.M) -> str:
    new, n = re.subn(pat, repl, text, flags=flags)
    ok = (n == expect) if isinstance(expect, int) else (expect[0] <= n <= expect[1])
    log.append({"rule": what, "pattern": pat, "matches": n, "expected": expect})
    if not ok:
        raise ShapeChanged(f"rewrite '{what}': pattern matched {n} times, expected {expect}")
    return new


def _cut(text: str, begin_pat: str, end_pat: str, what: str) -> str:
    b = re.search(begin_pat, text, re.M)
    if not b:
        raise ShapeChanged(f"extract '{what}': begin anchor /{begin_pat}/ not found")
    e = re.search(end_pat, text[b.start():], re.M)
    if not e:
        raise ShapeChanged(f"extract '{what}': end anchor /{end_pat}/ not found")
    return text[b.start(): b.start() + e.start()]


def _match_brace(text: str, open_idx: int) -> int:
    """index of the brace closing the one at open_idx (char/byte literals containing braces are
    skipped: b'{' b'}' '{' '}')."""
    assert text[open_idx] == "{"
    depth = 0
    i = open_idx
    n = len(text)
    while i < n:
        c = text[i]
        if c == "'" and i + 2 < n and text[i + 2] == "'":  # 'x'
            i += 3
            continue
        if c == "'" and i + 3 < n and text[i + 1] == "\\" and text[i + 3] == "'":  # '\x'
            i += 4
            continue
        if c == '"':
            j = i + 1
            while j < n and text[j] != '"':
                j += 2 if text[j] == "\\" else 1
            i = j + 1
            continue
        if c == "/" and text[i:i + 2] == "//":
            j = text.find("\n", i)
            i = n if j < 0 else j
            continue
        if c == "{":
            depth += 1
        elif c == "}":
            depth -= 1
            if depth == 0:
                return i
        i += 1
    raise ShapeChanged("unbalanced braces")


def extract(repo: Path) -> tuple[str, list, dict]:
    """Return (extracted rust text without contracts, rewrite log, pieces)"""
    log: list = []
    lexer = (repo / LEXER).read_text()
    lexeme = (repo / LEXEME).read_text()

    # ---- pieces ---------------------------------------------------------------------
    body = _cut(lexer, r"^const EOF: u8 = 0x0;", r"^#\[cfg\(test\)\]\npub\(crate\) fn tokenize", "lexer body (const EOF .. impl Lexer)")
    helpers = _cut(lexer, r"^// \[\\ , ' - ; < = > @ \\ \( \) \[ \] \{ \}\]\nfn is_special", r"^#\[cfg\(test\)\]\npub\(crate\) fn debug_tokens", "is_special + is_ascii_whitespace")
    lexeme_struct = _cut(lexeme, r"^pub\(crate\) struct Lexeme \{", r"^impl Lexeme \{", "struct Lexeme")
    kind_enum = _cut(lexeme, r"^pub enum Kind \{", r"^impl Kind \{", "enum Kind")

    # ---- rewrites -------------------------------------------------------------------
    body = _sub(body, r"^    input: &'a str,", "    pub input: &'a [u8],", 1, log, "field type: input &str -> &[u8] (Verus cannot reason about str bytes; UTF-8 shape becomes an explicit spec predicate)")
    body = _sub(body, r"fn new\(input: &'a str\)", "fn new(input: &'a [u8])", 1, log, "constructor parameter type follows the field")
    # uniform, meaning-preserving textual rewrites accept any number of sites (a change that adds one more
    # `self.input.as_bytes()` must not make the unit undecidable); structural desugarings keep exact counts
    body = _sub(body, r"\.input\s*\.as_bytes\(\)", ".input", (1, 40), log, "self.input.as_bytes() -> self.input", flags=re.M | re.S)
    body = _sub(body, r"^    (pos|after_backslash|after_number_or_float|in_path): ", r"    pub \1: ", 4, log, "struct fields made pub (contracts mention them)")
    body = _sub(body, r"pub\(crate\) ", "pub ", (3, 6), log, "visibility pub(crate) -> pub")
    body = _sub(body, r"^enum ExpectingPath", "pub enum ExpectingPath", 1, log, "visibility: ExpectingPath pub (it is the type of a pub field)")
    body = _sub(body, r'b"xX"\.contains', "[b'x', b'X'].contains", (0, 10), log, "byte-string literal b\"xX\" -> the equal array literal [b'x', b'X'] (Verus treats byte-string literals as opaque constants)")
    # or-pattern with guard -> one arm per alternative
    def split_or(m):
        indent, pats, guard, rhs = m.group(1), m.group(2), m.group(3), m.group(4)
        return "".join(f"{indent}{p.strip()} if {guard} => {rhs},\n" for p in pats.split("|"))
    body = _sub(body, r"^( +)(b'.'(?: \| b'.')+) if ([^=]+?) => ([^,\n]+),\n", split_or, 1, log, "desugar: `p1 | p2 | p3 if g => e` -> three arms (Verus: or-pattern with guard unsupported)")
    # loop-with-break-value in fn string
    m = re.search(r"^    fn string\(&mut self\) -> Kind \{", body, re.M)
    if not m:
        raise ShapeChanged("fn string signature not found")
    ob = body.index("{", m.end() - 1)
    cb = _match_brace(body, ob)
    fbody = body[ob + 1: cb]
    n_break_val = len(re.findall(r"\bbreak [A-Za-z]", fbody))
    log.append({"rule": "desugar: `loop { .. break <v> .. }` as tail expression -> `let mut fv_r = <v0>; loop { .. fv_r = <v>; break; .. } fv_r`", "pattern": r"\bbreak [A-Za-z]", "matches": n_break_val, "expected": 2})
    if n_break_val != 2 or not re.match(r"\s*loop \{", fbody):
        raise ShapeChanged(f"fn string: expected a single loop with 2 `break <value>`, found {n_break_val}")
    fbody2 = re.sub(r"^(\s*)loop \{", r"\1let mut fv_r = Kind::String;\n\1loop {", fbody, count=1)
    fbody2 = re.sub(r"break (Kind::\w+);", r"fv_r = \1; break;", fbody2)
    fbody2 = re.sub(r"=> break (Kind::\w+),", r"=> { fv_r = \1; break; }", fbody2)
    if re.search(r"\bbreak [A-Za-z]", fbody2):
        raise ShapeChanged("fn string: a `break <value>` survived the desugaring")
    fbody2 = fbody2.rstrip() + "\n        fv_r\n    "
    body = body[: ob + 1] + fbody2 + body[cb:]

    lexeme_struct = _sub(lexeme_struct, r"pub\(crate\) ", "pub ", 3, log, "Lexeme: visibility")
    lexeme_struct = _sub(lexeme_struct, r"^impl.*\Z", "", (0, 1), log, "Lexeme: nothing after the struct", flags=re.M | re.S)
    kind_enum = "#[derive(Clone, Copy, PartialEq, Eq)]\n" + kind_enum
    log.append({"rule": "derives: Kind keeps Clone, Copy, PartialEq, Eq (drops Debug, PartialOrd, Ord, Hash, #[repr(u16)]); Lexeme keeps none", "pattern": "", "matches": 1, "expected": 1})
    log.append({"rule": "Kind::from_keyword (100-arm match on byte-string literals) -> #[verifier::external_body] with the assumed contract `result != Some(Kind::Eof)`; that contract is itself checked by the Kani harness c13_from_keyword_never_eof", "pattern": "", "matches": 1, "expected": 1})
    log.append({"rule": "dropped: #[cfg(test)] items, doc comments on dropped items, `impl Lexeme { EMPTY }`, all other `impl Kind` methods (not called by the lexer)", "pattern": "", "matches": 1, "expected": 1})
    pieces = {"body": body, "helpers": helpers, "lexeme_struct": lexeme_struct, "kind_enum": kind_enum}
    return pieces, log


# ------------------------------------------------------------------------------------------
# contract splicing
# ------------------------------------------------------------------------------------------
_FN_RE = re.compile(r"^( *)(pub )?fn (\w+)(\([^)]*\))( -> ([^{]+?))? \{", re.M)


def splice(text: str, contracts: dict, used: set, log: list) -> str:
    out = []
    pos = 0
    for m in _FN_RE.finditer(text):
        name = m.group(3)
        c = contracts.get(name)
        if c is None:
            continue
        used.add(name)
        indent = m.group(1)
        ob = m.end() - 1
        cb = _match_brace(text, ob)
        sig = f"{indent}{m.group(2) or ''}fn {name}{m.group(4)}"
        if m.group(6):
            ret = m.group(6).strip()
            sig += f" -> ({c.get('ret', 'r')}: {ret})"
        clauses = ""
        if c.get("requires"):
            clauses += f"\n{indent}    requires " + f",\n{indent}        ".join(c["requires"]) + ","
        if c.get("ensures"):
            clauses += f"\n{indent}    ensures " + f",\n{indent}        ".join(c["ensures"]) + ","
        body = text[ob: cb + 1]
        # loops by ordinal
        loops = c.get("loops", [])
        heads = list(re.finditer(r"^( +)(while [^\n]*?|loop) \{$", body, re.M))
        if len(heads) != len(loops):
            raise ShapeChanged(f"fn {name}: {len(heads)} loops in the code, {len(loops)} loop contracts")
        for h, lc in zip(heads, loops):
            form = "loop" if h.group(2) == "loop" else "while"
            if lc.get("form", "while") != form:
                raise ShapeChanged(f"fn {name}: a `{lc.get('form', 'while')}` loop under contract is now a `{form}` loop (the loop contract no longer fits; re-inspect)")
        for h, lc in reversed(list(zip(heads, loops))):
            ind = h.group(1)
            inv = f"\n{ind}    invariant " + f",\n{ind}        ".join(lc["invariant"]) + ","
            ens = (f"\n{ind}    ensures " + f",\n{ind}        ".join(lc["ensures"]) + ",") if lc.get("ensures") else ""
            dec = f"\n{ind}    decreases {lc['decreases']},"
            body = body[: h.end() - 2] + inv + ens + dec + f"\n{ind}{{" + body[h.end():]
        if c.get("proof_prefix"):
            body = "{\n" + c["proof_prefix"] + body[1:]
        out.append(text[pos: m.start()])
        out.append(sig + clauses + f"\n{indent}" + body if clauses else sig + " " + body)
        pos = cb + 1
        log.append({"fn": name, "requires": len(c.get("requires", [])), "ensures": len(c.get("ensures", [])), "loops": len(loops)})
    out.append(text[pos:])
    return "".join(out)


def build_file(repo: Path) -> tuple[str, dict]:
    sys.path.insert(0, str(core.CONTRACTS / "verus"))
    import importlib
    import lexer_contracts as lc
    importlib.reload(lc)
    pieces, rlog = extract(repo)
    used: set = set()
    slog: list = []
    body = splice(pieces["body"], lc.CONTRACTS, used, slog)
    helpers = splice(pieces["helpers"], lc.CONTRACTS, used, slog)
    missing = set(lc.CONTRACTS) - used
    if missing:
        raise ShapeChanged(f"functions under contract no longer present in the lexer: {sorted(missing)}")
    present = set(re.findall(r"^\s*(?:pub )?fn (\w+)\(", pieces["body"] + "\n" + pieces["helpers"], re.M))
    uncontracted = sorted(present - set(lc.CONTRACTS) - set(getattr(lc, "NO_CONTRACT_NEEDED", [])))
    text = (
        "// GENERATED on every run by /verif/lib/fv/verus.py from /repo/fea-rs/src/parse/lexer.rs + lexer/lexeme.rs\n"
        "use vstd::prelude::*;\nverus! {\n"
        + lc.PRELUDE
        + "\npub struct Lexeme {\n" + pieces["lexeme_struct"].split("{", 1)[1]
        + "\n" + pieces["kind_enum"]
        + lc.FROM_KEYWORD_STUB
        + "\n" + body
        + "\n" + helpers
        + "\n" + lc.LEMMAS
        + "\n} // verus!\nfn main() {}\n"
    )
    return text, {"rewrites": rlog, "spliced": slog, "contracts": lc, "uncontracted_functions": uncontracted}


def shipped_vs_verified_diff(repo: Path, verified: str) -> str:
    shipped = (repo / LEXER).read_text().splitlines(keepends=True)
    return "".join(difflib.unified_diff(shipped, verified.splitlines(keepends=True), "shipped:" + LEXER, "verified:lexer_verus.rs", n=1))


def run_verus(path: Path, timeout_s: int = 600) -> dict:
    cmd = ["verus", str(path), "--output-json", "--time", "--num-threads", "8"]
    t0 = time.time()
    p = subprocess.run(cmd, capture_output=True, text=True, timeout=timeout_s)
    wall = time.time() - t0
    out = p.stdout
    js = None
    try:
        start = out.index("{")
        js = json.loads(out[start:])
    except Exception:
        js = None
    return {"cmd": " ".join(cmd), "rc": p.returncode, "json": js, "stdout": out, "stderr": p.stderr, "wall_s": round(wall, 1)}


_ERR_RE = re.compile(r"^error(?:\[E\d+\])?: (.+)$", re.M)


def run_unit(scratch: core.Scratch, units: list[dict], results: dict, texts: dict, metas: list) -> dict:
    """Fills results[obligation] for every verus unit. One obligation per function under contract."""
    info: dict = {}
    out_dir = core.EVIDENCE / "C13-verus"
    out_dir.mkdir(parents=True, exist_ok=True)
    try:
        text, meta = build_file(scratch.repo)
    except ShapeChanged as e:
        for u in units:
            results[u["obligation"]] = {"status": "undecided", "reason": f"extraction: {e}", "failed_checks": [], "stubs": []}
        return {"error": str(e)}
    path = scratch.root / "lexer_verus.rs"
    path.write_text(text)
    (out_dir / "lexer_verus.rs").write_text(text)
    (out_dir / "shipped_vs_verified.diff").write_text(shipped_vs_verified_diff(scratch.repo, text))
    core.write_json(out_dir / "extraction_log.json", {"rewrites": meta["rewrites"], "spliced": meta["spliced"]})
    texts["evidence/C13-verus/lexer_verus.rs"] = text
    try:
        r = run_verus(path)
    except subprocess.TimeoutExpired:
        for u in units:
            results[u["obligation"]] = {"status": "undecided", "reason": "verus timed out", "failed_checks": [], "stubs": []}
        return {"error": "timeout"}
    metas.append({"engine": "verus", "cmd": r["cmd"] + "   # on the file regenerated from /repo (copy kept in evidence/C13-verus/lexer_verus.rs)", "wall_s": r["wall_s"], "rc": r["rc"]})
    js = r["json"] or {}
    vr = js.get("verification-results", {})
    info = {"verified": vr.get("verified"), "errors": vr.get("errors"), "rc": r["rc"], "wall_s": r["wall_s"],
            "times_ms": js.get("times-ms", {}).get("total") if isinstance(js.get("times-ms"), dict) else None,
            "rewrites": meta["rewrites"], "functions_spliced": [s["fn"] for s in meta["spliced"]],
            "diff_file": "evidence/C13-verus/shipped_vs_verified.diff"}
    # per-function solver time and success as reported by Verus itself
    fn_times: dict[str, dict] = {}
    try:
        for mod in js["times-ms"]["smt"]["smt-run-module-times"]:
            for fb in mod.get("function-breakdown", []):
                short = fb["function"].split("::")[-1]
                rec = fn_times.setdefault(short, {"solver_s": 0.0, "rlimit": 0, "success": True, "queries": 0})
                rec["solver_s"] += fb.get("time-micros", 0) / 1e6
                rec["rlimit"] += fb.get("rlimit", 0)
                rec["success"] = rec["success"] and bool(fb.get("success", True))
                rec["queries"] += 1
    except Exception:
        pass
    info["per_function"] = fn_times
    stderr = r["stderr"]
    # map errors to functions: verus prints `error: postcondition not satisfied` / `--> file:line:col`
    failing: dict[str, list] = {}
    if vr.get("errors", 0) or r["rc"] != 0:
        lines = text.splitlines()
        fn_at = []
        cur = None
        for ln in lines:
            m = re.match(r"\s*(?:pub )?(?:proof )?fn (\w+)", ln)
            if m:
                cur = m.group(1)
            fn_at.append(cur)
        blocks = re.split(r"\n(?=error)", stderr)
        for b in blocks:
            m = _ERR_RE.search(b)
            if not m:
                continue
            desc = m.group(1)
            if desc.startswith("aborting due to"):
                continue
            locs = [int(x) for x in re.findall(r"lexer_verus\.rs:(\d+):\d+", b)]
            fn = None
            # the function containing the *failing body location*: use the last location mentioned inside a body
            for ln_no in locs:
                if 0 < ln_no <= len(fn_at) and fn_at[ln_no - 1]:
                    fn = fn_at[ln_no - 1]
            snippet = "\n".join(b.splitlines()[:14])
            failing.setdefault(fn or "?", []).append({"description": desc, "location": snippet})
    # vacuity probes must fail; take them out of the failure map
    probes = list(getattr(meta["contracts"], "PROBES", []))
    probes_ok = [pname for pname in probes if pname in failing]
    probes_vacuous = [pname for pname in probes if pname not in failing]
    for pname in probes_ok:
        failing.pop(pname, None)
    info["vacuity_probes"] = {"must_fail": probes, "failed_as_required": probes_ok, "verified_unexpectedly": probes_vacuous}
    uncontracted = meta.get("uncontracted_functions", [])
    info["uncontracted_functions"] = uncontracted
    compile_failed = (not js) or ("verification-results" not in js)
    hard_errors = [d for fn, fl in failing.items() for d in fl if not _is_verification_error(d["description"])]
    for u in units:
        fn = u["verus_fn"]
        if compile_failed or hard_errors:
            why = hard_errors[0]["description"] if hard_errors else "verus produced no verification results"
            results[u["obligation"]] = {"status": "undecided", "reason": f"verus rejected the extracted text (unsupported construct / type error): {why}", "failed_checks": [], "stubs": [], "raw": stderr[-3000:]}
        elif fn in failing:
            fl = failing[fn]
            if all("rlimit" in f["description"] or "resource limit" in f["description"] for f in fl):
                results[u["obligation"]] = {"status": "undecided", "reason": "rlimit exceeded", "failed_checks": fl, "stubs": [], "raw": stderr[-3000:]}
            elif uncontracted:
                # modular verification: a caller of a function that has no contract cannot be proved, whatever the
                # function does - that is "needs a contract", not "the property is violated"
                results[u["obligation"]] = {"status": "undecided", "reason": f"proof failed, but the unit now contains function(s) without a contract {uncontracted}: needs a contract, not decidable as a violation", "failed_checks": fl, "stubs": [], "raw": stderr[-3000:]}
            else:
                results[u["obligation"]] = {"status": "failed", "reason": "", "failed_checks": fl, "stubs": [], "raw": stderr[-6000:]}
        elif "?" in failing:
            results[u["obligation"]] = {"status": "undecided", "reason": "a verus error could not be attributed to a function", "failed_checks": failing["?"], "stubs": [], "raw": stderr[-3000:]}
        else:
            ft = fn_times.get(fn)
            if ft is None and fn not in ("is_special", "is_ascii_whitespace", "new"):
                results[u["obligation"]] = {"status": "undecided", "reason": f"verus reported no SMT query for {fn} (function not verified?)", "failed_checks": [], "stubs": []}
            else:
                results[u["obligation"]] = {"status": "verified", "reason": "", "failed_checks": [], "stubs": [], "solver_s": round(ft["solver_s"], 4) if ft else None, "checks_total": ft["queries"] if ft else None}
    if not compile_failed and probes_vacuous:
        for u in units:
            if results[u["obligation"]]["status"] == "verified":
                results[u["obligation"]] = {"status": "undecided", "reason": f"vacuity probe(s) {probes_vacuous} verified: the contract hypotheses are contradictory", "failed_checks": [], "stubs": []}
    # vacuity: number of verified items must be at least the number of functions under contract
    n_fns = len(units)
    if not compile_failed and not failing and (vr.get("verified", 0) < n_fns):
        for u in units:
            results[u["obligation"]] = {"status": "undecided", "reason": f"verus verified {vr.get('verified')} items, fewer than the {n_fns} functions under contract", "failed_checks": [], "stubs": []}
    info["failing_functions"] = {k: [f["description"] for f in v] for k, v in failing.items()}
    return info


def _is_verification_error(desc: str) -> bool:
    keys = ("postcondition not satisfied", "precondition not satisfied", "invariant not satisfied", "assertion failed", "possible arithmetic underflow/overflow",
            "decreases not satisfied", "possible division by zero", "index out of bounds", "rlimit", "resource limit", "loop invariant", "might not", "could not prove termination",
            "possible bit shift", "recommendation not met", "unable to prove", "not satisfied")
    return any(k in desc for k in keys)
