// GENERATED on every run by /verif/lib/fv/verus.py from /repo/fea-rs/src/parse/lexer.rs + lexer/lexeme.rs
use vstd::prelude::*;
verus! {

global size_of usize == 8;

// ---- trusted specifications of the five std functions the lexer calls -----------------
pub assume_specification[ <usize as From<bool>>::from ](b: bool) -> (r: usize)
    ensures r == (if b { 1usize } else { 0usize });
pub assume_specification[ <u8>::is_ascii_digit ](b: &u8) -> (r: bool)
    ensures r == (0x30 <= *b <= 0x39);
pub assume_specification[ <u8>::is_ascii_hexdigit ](b: &u8) -> (r: bool)
    ensures r == ((0x30 <= *b <= 0x39) || (0x41 <= *b <= 0x46) || (0x61 <= *b <= 0x66));
pub assume_specification<T: Copy>[ Option::<&T>::copied ](o: Option<&T>) -> (r: Option<T>)
    ensures r == (match o { Some(x) => Some(*x), None => None });
pub assume_specification<T: PartialEq>[ <[T]>::contains ](s: &[T], x: &T) -> (r: bool)
    ensures r == s@.contains(*x);

// ---- spec predicates ------------------------------------------------------------------
/// representation invariant of the lexer: the cursor is inside the input, and the input is
/// no longer than a Rust allocation can be (so `pos + k` for the small look-aheads cannot wrap)
pub open spec fn wf(l: Lexer) -> bool {
    l.pos <= l.input@.len() && l.input@.len() <= 0x7fff_ffff_ffff_fff0
}

/// frame: scanners move only the cursor
pub open spec fn frame(a: Lexer, b: Lexer) -> bool {
    a.input@ == b.input@ && a.after_backslash == b.after_backslash
        && a.after_number_or_float == b.after_number_or_float && a.in_path == b.in_path
}

/// UTF-8 continuation byte
pub open spec fn cont(b: u8) -> bool { 0x80 <= b <= 0xBF }

/// `i` is a char boundary of `s` (what str::is_char_boundary computes)
pub open spec fn boundary(s: Seq<u8>, i: int) -> bool {
    i == s.len() || (0 <= i < s.len() && !cont(s[i]))
}

/// The consequence of UTF-8 validity that the boundary argument needs (a `&str` guarantees full
/// validity in the real code; the `[u8]` rewrite loses the type invariant, so it comes back as
/// an explicit hypothesis of T4 only): a continuation byte is always preceded by a non-ASCII
/// byte (so it never starts the input and never directly follows an ASCII byte).
pub open spec fn utf8_shape(s: Seq<u8>) -> bool {
    forall|i: int| 0 <= i < s.len() && cont(#[trigger] s[i]) ==> (i > 0 && s[i - 1] >= 0x80)
}

/// stop clause of the scanners that consume only ASCII bytes (whitespace, digits, numbers):
/// either nothing was consumed or the last consumed byte is ASCII
pub open spec fn ascii_stop(s: Seq<u8>, from: int, to: int) -> bool {
    to == from || (0 < to <= s.len() && s[to - 1] < 0x80)
}

/// stop clause of the scanners that run up to a delimiter (comment, string, identifiers, paths):
/// they stop at the end of input, in front of an ASCII byte, or right after an ASCII byte
pub open spec fn delim_stop(s: Seq<u8>, from: int, to: int) -> bool {
    to == s.len() || (0 <= to < s.len() && s[to] < 0x80) || (from < to <= s.len() && s[to - 1] < 0x80)
}

pub struct Lexeme {

    pub len: usize,
    pub kind: Kind,
}


#[derive(Clone, Copy, PartialEq, Eq)]
pub enum Kind {
    Eof, // the end of the input stream
    // a name or a keyword or any other block of non-whitespace.
    // we will frequently have to disambiguate this based on context.
    Ident,

    String,
    StringUnterminated, // an error handled at a higher level
    Number,
    Octal,
    Hex,      // an error handled at a higher level
    HexEmpty, // naked 0x
    Float,

    // Experimental
    // a number or float + an optional suffix
    NumberSuffix,

    Whitespace,
    Comment,

    // special symbols
    Semi,
    Colon,
    Comma,
    Backslash,
    Hyphen,
    Eq,
    LBrace,
    RBrace,
    LSquare,
    RSquare,
    LParen,
    RParen,
    LAngle,
    RAngle,
    SingleQuote,

    NamedGlyphClass,
    Cid,

    // top-level keywords
    TableKw,
    LookupKw,
    LanguagesystemKw,
    AnchorDefKw,
    FeatureKw,
    MarkClassKw,
    AnonKw, // 'anon' and 'anonymous'
    ConditionSetKw,
    VariationKw,

    // other keywords
    AnchorKw,
    ByKw,
    ContourpointKw,
    CursiveKw,
    DeviceKw,
    EnumKw, // 'enum' and 'enumerate'
    ExcludeDfltKw,
    FromKw,
    IgnoreKw,
    IgnoreBaseGlyphsKw,
    IgnoreLigaturesKw,
    IgnoreMarksKw,
    IncludeKw,
    IncludeDfltKw,
    LanguageKw,
    LookupflagKw,
    MarkKw,
    MarkAttachmentTypeKw,
    NameIdKw,
    NullKw,
    ParametersKw,
    PosKw, // 'pos' and 'position'
    RequiredKw,
    RightToLeftKw,
    RsubKw, // 'rsub' and 'reversesub'
    ScriptKw,
    SubKw, // 'sub' and 'substitute'
    SubtableKw,
    UseExtensionKw,
    UseMarkFilteringSetKw,
    ValueRecordDefKw,

    // keywords only in specific table contexts:
    HorizAxisBaseScriptListKw,   //BASE table
    HorizAxisBaseTagListKw,      //BASE table
    HorizAxisMinMaxKw,           //BASE table
    VertAxisBaseScriptListKw,    //BASE table
    VertAxisBaseTagListKw,       //BASE table
    VertAxisMinMaxKw,            //BASE table
    AttachKw,                    //GDEF table
    GlyphClassDefKw,             //GDEF table
    LigatureCaretByDevKw,        //GDEF table
    LigatureCaretByIndexKw,      //GDEF table
    LigatureCaretByPosKw,        //GDEF table
    MarkAttachClassKw,           //GDEF table
    FontRevisionKw,              //head table
    AscenderKw,                  //hhea table
    CaretOffsetKw,               //hhea table
    DescenderKw,                 //hhea table
    LineGapKw,                   //hhea table
    CapHeightKw,                 //OS/2 table
    CodePageRangeKw,             //OS/2 table
    PanoseKw,                    //OS/2 table
    TypoAscenderKw,              //OS/2 table
    TypoDescenderKw,             //OS/2 table
    TypoLineGapKw,               //OS/2 table
    UnicodeRangeKw,              //OS/2 table
    VendorKw,                    //OS/2 table
    WinAscentKw,                 //OS/2 table
    WinDescentKw,                //OS/2 table
    XHeightKw,                   //OS/2 table
    SizemenunameKw,              //size feature
    VertTypoAscenderKw,          //vhea table
    VertTypoDescenderKw,         //vhea table
    VertTypoLineGapKw,           //vhea table
    VertAdvanceYKw,              //vmtx table
    VertOriginYKw,               //vmtx table
    ElidedFallbackNameKw,        //STAT table
    ElidedFallbackNameIDKw,      //STAT table
    DesignAxisKw,                //STAT table
    AxisValueKw,                 //STAT table
    FlagKw,                      //STAT table
    LocationKw,                  //STAT table
    ElidableAxisValueNameKw,     //STAT table
    OlderSiblingFontAttributeKw, //STAT table

    // not technically a keyword but we lex and treat contextually:
    FeatureNamesKw,            // ss01-ss20
    NameKw,                    // ss01-ss20
    CvParametersKw,            // cv01-cv99
    FeatUiLabelNameIdKw,       // cv01-cv99
    FeatUiTooltipTextNameIdKw, // cv01-cv99
    SampleTextNameIdKw,        // cv01-cv99
    ParamUiLabelNameIdKw,      // cv01-cv99
    CharacterKw,               // cv01-cv99
    Path,

    // $; used to denote glyphs syntax
    Dollar,
    // +; an operator in glyphs syntax
    Plus,
    // *; an operator in glyphs syntax
    Asterisk,
    // '/': an operator in glyphs syntax
    Slash,

    Tombstone, // a placeholder value
}


impl Kind {
    /// 100-arm match on byte-string literals in the real code; pure; only selects the Kind.
    /// Assumed contract (checked separately by the Kani harness c13_from_keyword_never_eof):
    /// a keyword is never lexed as Eof or as the Tombstone placeholder.
    #[verifier::external_body]
    pub fn from_keyword(word: &[u8]) -> (r: Option<Kind>)
        ensures r != Some(Kind::Eof), r != Some(Kind::Tombstone),
    { unimplemented!() }
}

const EOF: u8 = 0x0;

pub struct Lexer<'a> {
    pub input: &'a [u8],
    pub pos: usize,
    pub after_backslash: bool,
    pub after_number_or_float: bool,
    pub in_path: ExpectingPath,
}

// simple state machine for tracking whether we should be parsing a path.
//
// paths are complicated because suddenly we stop tokenizing, and just
// glom everything together up to the closing parens.
#[derive(Clone, Copy, Default)]
pub enum ExpectingPath {
    #[default]
    Ready,
    // we have seen the 'include' keyword. This means if the next token is a paren,
    // we enter the 'InPath' state.
    SawInclude,
    InPath,
}

impl ExpectingPath {
    fn in_path(self) -> bool {
        matches!(self, ExpectingPath::InPath)
    }

    fn transition(&mut self, kind: Kind) {
        *self = match (*self, kind) {
            (ExpectingPath::Ready, Kind::IncludeKw) => ExpectingPath::SawInclude,
            (ExpectingPath::SawInclude, Kind::LParen) => ExpectingPath::InPath,
            // don't transition if we see whitespace after include, e.g,
            // include (hi.fea)
            (ExpectingPath::SawInclude, Kind::Whitespace) => ExpectingPath::SawInclude,
            _ => ExpectingPath::Ready,
        }
    }
}

impl<'a> Lexer<'a> {
    pub fn new(input: &'a [u8]) -> (r: Self)
        requires input@.len() <= 0x7fff_ffff_ffff_fff0,
        ensures wf(r),
            r.pos == 0,
            r.input@ == input@,
            !r.after_backslash,
            !r.after_number_or_float,
    {
        Lexer {
            input,
            pos: 0,
            after_backslash: false,
            after_number_or_float: false,
            in_path: Default::default(),
        }
    }

    fn nth(&self, index: usize) -> (r: u8)
        requires wf(*self),
            index <= 4,
        ensures r == (if self.pos + index < self.input@.len() { self.input@[self.pos + index] } else { 0u8 }),
    {
        self.input
            .get(self.pos + index)
            .copied()
            .unwrap_or(EOF)
    }

    fn bump(&mut self) -> (r: Option<u8>)
        requires wf(*old(self)),
        ensures wf(*final(self)),
            frame(*old(self), *final(self)),
            old(self).pos < old(self).input@.len() ==> (final(self).pos == old(self).pos + 1 && r == Some(old(self).input@[old(self).pos as int])),
            old(self).pos >= old(self).input@.len() ==> (final(self).pos == old(self).pos && r.is_none()),
    {
        let pos = self.pos;
        let next = self.input.get(pos).copied();
        self.pos += usize::from(next.is_some());
        next
    }

    pub fn next_token(&mut self) -> (r: Lexeme)
        requires wf(*old(self)),
        ensures wf(*final(self)),
            final(self).input@ == old(self).input@,
            final(self).pos == old(self).pos + r.len,
            final(self).pos <= final(self).input@.len(),
            old(self).pos < old(self).input@.len() ==> r.len >= 1,
            (r.kind == Kind::Eof) <==> (old(self).pos == old(self).input@.len()),
            r.kind != Kind::Tombstone,
            (utf8_shape(old(self).input@) && boundary(old(self).input@, old(self).pos as int)) ==> boundary(old(self).input@, final(self).pos as int),
    {
        let start_pos = self.pos;
        let first = self.bump();
        let kind = match first.unwrap_or(EOF) {
            // only the real end of input is Eof; a literal NUL byte in the text is not
            EOF if first.is_none() => Kind::Eof,
            _ if self.in_path.in_path() => self.path(),
            byte if is_ascii_whitespace(byte) => self.whitespace(),
            b'#' => self.comment(),
            b'"' => self.string(),
            b'0'..=b'9' if self.after_backslash => self.cid(),
            b'0' => self.number(true),
            b'1'..=b'9' => self.number(false),
            b';' => Kind::Semi,
            b':' => Kind::Colon,
            b',' => Kind::Comma,
            b'@' => self.glyph_class_name(),
            b'\\' => Kind::Backslash,
            b'-' => self.hyphen_or_minus(),
            b'=' => Kind::Eq,
            b'{' => Kind::LBrace,
            b'}' => Kind::RBrace,
            b'[' => Kind::LSquare,
            b']' => Kind::RSquare,
            b'(' => Kind::LParen,
            b')' => Kind::RParen,
            b'<' => Kind::LAngle,
            b'>' => Kind::RAngle,
            b'\'' => Kind::SingleQuote,
            b'$' => Kind::Dollar,
            b'*' => Kind::Asterisk,
            b'+' => Kind::Plus,
            b'/' => Kind::Slash,
            b'n' if self.after_number_or_float => Kind::NumberSuffix,
            b'u' if self.after_number_or_float => Kind::NumberSuffix,
            b'd' if self.after_number_or_float => Kind::NumberSuffix,
            _ => self.ident(),
        };
        self.in_path.transition(kind);

        self.after_backslash = matches!(kind, Kind::Backslash);
        self.after_number_or_float = matches!(kind, Kind::Number | Kind::Float);

        let len = self.pos - start_pos;
        Lexeme { len, kind }
    }

    fn whitespace(&mut self) -> (k: Kind)
        requires wf(*old(self)),
        ensures wf(*final(self)),
            frame(*old(self), *final(self)),
            final(self).pos >= old(self).pos,
            ascii_stop(old(self).input@, old(self).pos as int, final(self).pos as int),
            k == Kind::Whitespace,
    {
        while is_ascii_whitespace(self.nth(0))
            invariant wf(*self),
                frame(*old(self), *self),
                self.pos >= old(self).pos,
                ascii_stop(old(self).input@, old(self).pos as int, self.pos as int),
            decreases self.input@.len() - self.pos,
        {
            self.bump();
        }
        Kind::Whitespace
    }

    fn comment(&mut self) -> (k: Kind)
        requires wf(*old(self)),
        ensures wf(*final(self)),
            frame(*old(self), *final(self)),
            final(self).pos >= old(self).pos,
            delim_stop(old(self).input@, old(self).pos as int, final(self).pos as int),
            k == Kind::Comment,
    {
        while ![b'\n', b'\r', EOF].contains(&self.nth(0))
            invariant wf(*self),
                frame(*old(self), *self),
                self.pos >= old(self).pos,
            decreases self.input@.len() - self.pos,
        {
            self.bump();
        }
        Kind::Comment
    }

    fn string(&mut self) -> (k: Kind)
        requires wf(*old(self)),
        ensures wf(*final(self)),
            frame(*old(self), *final(self)),
            final(self).pos >= old(self).pos,
            delim_stop(old(self).input@, old(self).pos as int, final(self).pos as int),
            k == Kind::String || k == Kind::StringUnterminated,
    {
        let mut fv_r = Kind::String;

        loop
            invariant wf(*self),
                frame(*old(self), *self),
                self.pos >= old(self).pos,
                fv_r == Kind::String || fv_r == Kind::StringUnterminated,
            ensures delim_stop(old(self).input@, old(self).pos as int, self.pos as int),
            decreases self.input@.len() - self.pos,
        {
            match self.nth(0) {
                b'"' => {
                    self.bump();
                    fv_r = Kind::String; break;
                }
                EOF => { fv_r = Kind::StringUnterminated; break; }
                _ => {
                    self.bump();
                }
            }
        }
        fv_r
    }

    fn hyphen_or_minus(&mut self) -> (k: Kind)
        requires wf(*old(self)),
        ensures wf(*final(self)),
            frame(*old(self), *final(self)),
            final(self).pos >= old(self).pos,
            ascii_stop(old(self).input@, old(self).pos as int, final(self).pos as int),
            k != Kind::Eof && k != Kind::Tombstone,
    {
        if self.nth(0) == b'0' {
            // octal, so this is a hyphen (and an error)
            if self.nth(1).is_ascii_digit() {
                return Kind::Hyphen;
            }
            // hex: ditto
            if [b'x', b'X'].contains(&self.nth(1)) {
                return Kind::Hyphen;
            }
        }
        if self.nth(0).is_ascii_digit() {
            return self.number(false);
        }

        Kind::Hyphen
    }

    fn number(&mut self, leading_zero: bool) -> (k: Kind)
        requires wf(*old(self)),
        ensures wf(*final(self)),
            frame(*old(self), *final(self)),
            final(self).pos >= old(self).pos,
            ascii_stop(old(self).input@, old(self).pos as int, final(self).pos as int),
            k != Kind::Eof && k != Kind::Tombstone,
    {
        if leading_zero && self.nth(0) != b'.' {
            if [b'x', b'X'].contains(&self.nth(0)) {
                self.bump();
                if self.nth(0).is_ascii_hexdigit() {
                    self.eat_hex_digits();
                    Kind::Hex
                } else {
                    Kind::HexEmpty
                }
            } else if self.nth(0).is_ascii_digit() {
                self.eat_octal_digits();
                Kind::Octal
            } else {
                // just '0'
                Kind::Number
            }
        } else {
            self.eat_decimal_digits();
            if self.nth(0) == b'.' {
                self.bump();
                self.eat_decimal_digits();
                Kind::Float
            } else {
                Kind::Number
            }
        }
    }

    fn eat_octal_digits(&mut self)
        requires wf(*old(self)),
        ensures wf(*final(self)),
            frame(*old(self), *final(self)),
            final(self).pos >= old(self).pos,
            ascii_stop(old(self).input@, old(self).pos as int, final(self).pos as int),
    {
        while matches!(self.nth(0), b'0'..=b'7')
            invariant wf(*self),
                frame(*old(self), *self),
                self.pos >= old(self).pos,
                ascii_stop(old(self).input@, old(self).pos as int, self.pos as int),
            decreases self.input@.len() - self.pos,
        {
            self.bump();
        }
    }
    fn eat_hex_digits(&mut self)
        requires wf(*old(self)),
        ensures wf(*final(self)),
            frame(*old(self), *final(self)),
            final(self).pos >= old(self).pos,
            ascii_stop(old(self).input@, old(self).pos as int, final(self).pos as int),
    {
        while self.nth(0).is_ascii_hexdigit()
            invariant wf(*self),
                frame(*old(self), *self),
                self.pos >= old(self).pos,
                ascii_stop(old(self).input@, old(self).pos as int, self.pos as int),
            decreases self.input@.len() - self.pos,
        {
            self.bump();
        }
    }

    fn eat_decimal_digits(&mut self)
        requires wf(*old(self)),
        ensures wf(*final(self)),
            frame(*old(self), *final(self)),
            final(self).pos >= old(self).pos,
            ascii_stop(old(self).input@, old(self).pos as int, final(self).pos as int),
    {
        while self.nth(0).is_ascii_digit()
            invariant wf(*self),
                frame(*old(self), *self),
                self.pos >= old(self).pos,
                ascii_stop(old(self).input@, old(self).pos as int, self.pos as int),
            decreases self.input@.len() - self.pos,
        {
            self.bump();
        }
    }

    fn cid(&mut self) -> (k: Kind)
        requires wf(*old(self)),
        ensures wf(*final(self)),
            frame(*old(self), *final(self)),
            final(self).pos >= old(self).pos,
            ascii_stop(old(self).input@, old(self).pos as int, final(self).pos as int),
            k == Kind::Cid,
    {
        self.eat_decimal_digits();
        Kind::Cid
    }

    fn glyph_class_name(&mut self) -> (k: Kind)
        requires wf(*old(self)),
        ensures wf(*final(self)),
            frame(*old(self), *final(self)),
            final(self).pos >= old(self).pos,
            delim_stop(old(self).input@, old(self).pos as int, final(self).pos as int),
            k == Kind::NamedGlyphClass,
    {
        self.eat_ident();
        Kind::NamedGlyphClass
    }

    fn eat_ident(&mut self)
        requires wf(*old(self)),
        ensures wf(*final(self)),
            frame(*old(self), *final(self)),
            final(self).pos >= old(self).pos,
            delim_stop(old(self).input@, old(self).pos as int, final(self).pos as int),
    {
        loop
            invariant wf(*self),
                frame(*old(self), *self),
                self.pos >= old(self).pos,
            ensures delim_stop(old(self).input@, old(self).pos as int, self.pos as int),
            decreases self.input@.len() - self.pos,
        {
            match self.nth(0) {
                EOF => break,
                b if is_ascii_whitespace(b) => break,
                b'-' => (),
                b if is_special(b) => break,
                _ => (),
            }
            self.bump();
        }
    }

    /// super dumb for now; we eat anything that isn't whitespace or special char.
    fn ident(&mut self) -> (k: Kind)
        requires wf(*old(self)),
        ensures wf(*final(self)),
            frame(*old(self), *final(self)),
            final(self).pos >= old(self).pos,
            delim_stop(old(self).input@, old(self).pos as int, final(self).pos as int),
            k != Kind::Eof && k != Kind::Tombstone,
    {
        let start_pos = self.pos.saturating_sub(1);
        self.eat_ident();

        if self.after_backslash {
            return Kind::Ident;
        }

        let raw_token = &self.input[start_pos..self.pos];
        Kind::from_keyword(raw_token).unwrap_or(Kind::Ident)
    }

    fn path(&mut self) -> (k: Kind)
        requires wf(*old(self)),
        ensures wf(*final(self)),
            frame(*old(self), *final(self)),
            final(self).pos >= old(self).pos,
            delim_stop(old(self).input@, old(self).pos as int, final(self).pos as int),
            k == Kind::Path,
    {
        while !matches!(self.nth(0), EOF | b')')
            invariant wf(*self),
                frame(*old(self), *self),
                self.pos >= old(self).pos,
            decreases self.input@.len() - self.pos,
        {
            self.bump();
        }
        Kind::Path
    }
}


// [\ , ' - ; < = > @ \ ( ) [ ] { }]
fn is_special(byte: u8) -> (r: bool)
    ensures r ==> (byte != 0 && byte < 0x80),
{
    (39..=45).contains(&byte)
        || (59..=64).contains(&byte)
        || (91..=93).contains(&byte)
        || byte == 123
        || byte == 125
}

fn is_ascii_whitespace(byte: u8) -> (r: bool)
    ensures r ==> (byte != 0 && byte < 0x80),
{
    byte == b' ' || (0x9..=0xD).contains(&byte)
}



pub proof fn fv_vacuity_probe_wf_and_utf8(l: Lexer)
    requires wf(l), l.pos < l.input@.len(), l.input@.len() >= 3, utf8_shape(l.input@), boundary(l.input@, l.pos as int),
        l.input@[0] >= 0xC0, cont(l.input@[1]),
    ensures false,
{
}

pub proof fn fv_vacuity_probe_stop_clauses(s: Seq<u8>, a: int, b: int)
    requires 0 <= a < b < s.len(), ascii_stop(s, a, b), delim_stop(s, a, b), utf8_shape(s), boundary(s, a), boundary(s, b),
    ensures false,
{
}

// ---- the tiling theorem: a driver that calls next_token until Eof consumes exactly the input ----
// `fv_driver_consumes_everything` is a CLIENT of the contracts only (it is not code from /repo): an
// executable driver loop, verified against next_token's contract, whose postcondition is the lexer
// half of the property statement: the lexeme lengths are all >= 1, they sum to |input| (so the
// lexeme texts, concatenated, are exactly the input), every lexeme boundary is a char boundary when the
// input is UTF-8 shaped, and the loop terminates (decreases |input| - pos).
pub open spec fn total(s: Seq<usize>) -> int
    decreases s.len(),
{
    if s.len() == 0 { 0 } else { total(s.drop_last()) + s.last() as int }
}

pub proof fn lemma_total_push(s: Seq<usize>, x: usize)
    ensures total(s.push(x)) == total(s) + x as int,
{
    assert(s.push(x).drop_last() =~= s);
}

pub fn fv_driver_consumes_everything(input: &[u8]) -> (lens: Vec<usize>)
    requires input@.len() <= 0x7fff_ffff_ffff_fff0,
    ensures
        total(lens@) == input@.len(),
        forall|i: int| 0 <= i < lens@.len() ==> lens@[i] >= 1,
        lens@.len() <= input@.len(),
{
    let mut lx = Lexer::new(input);
    let mut lens: Vec<usize> = Vec::new();
    loop
        invariant
            wf(lx),
            lx.input@ == input@,
            total(lens@) == lx.pos as int,
            forall|i: int| 0 <= i < lens@.len() ==> lens@[i] >= 1,
            lens@.len() <= lx.pos,
            utf8_shape(input@) ==> boundary(input@, lx.pos as int),
        ensures
            total(lens@) == input@.len(),
            forall|i: int| 0 <= i < lens@.len() ==> lens@[i] >= 1,
            lens@.len() <= input@.len(),
        decreases input@.len() - lx.pos,
    {
        let t = lx.next_token();
        if matches!(t.kind, Kind::Eof) {
            break;
        }
        proof {
            lemma_total_push(lens@, t.len);
        }
        lens.push(t.len);
    }
    lens
}

} // verus!
fn main() {}
