"""Contracts for the FEA lexer (fea-rs/src/parse/lexer.rs), spliced into the mechanically
extracted text on every run.  Keyed by function name; loops by ordinal inside the function.

Top-level postconditions of next_token are the C13 property statement:
  T1 lossless tiling : final.pos == old.pos + r.len  and final.pos <= |input|
  T2 progress        : old.pos < |input|  ==>  r.len >= 1        (so a driver terminates)
  T3 Eof only at end : r.kind == Eof  <==>  old.pos == |input|   (nothing is dropped after "Eof")
  T4 char boundaries : utf8_shape(input) && boundary(old.pos) ==> boundary(final.pos)
Every loop carries `decreases |input| - pos` (no hang); every index / `+` / `-` is proved in
range by Verus' built-in obligations (no panic).
"""

MAXLEN = "0x7fff_ffff_ffff_fff0"

PRELUDE = r"""
global size_of usize == 8;

// ---- trusted specifications of the five std functions the lexer calls -----------------
pub assume_specification[ <usize as From<bool>>::from ](b: bool) -> (r: usize)
    ensures r == (if b { 1usize } else { 0usize });
pub assume_specification[ <u8>::is_ascii_digit ](b: &u8) -> (r: bool)
    ensures r == (0x30 <= *b <= 0x39);
pub assume_specification[ <u8>::is_ascii_hexdigit ](b: &u8) -> (r: bool)
    ensures r == ((0x30 <= *b <= 0x39) || (0x41 <= *b <= 0x46) || (0x61 <= *b <= 0x66));
pub assume_specification<T: Copy>[ Option::<&T>::copied ](o: Option<&T>) -> (r: Option<T>)
    ensures r == (match o { Some(x) => Some(*x), None => None });
pub assume_specification<T: PartialEq>[ <[T]>::contains ](s: &[T], x: &T) -> (r: bool)
    ensures r == s@.contains(*x);

// ---- spec predicates ------------------------------------------------------------------
/// representation invariant of the lexer: the cursor is inside the input, and the input is
/// no longer than a Rust allocation can be (so `pos + k` for the small look-aheads cannot wrap)
pub open spec fn wf(l: Lexer) -> bool {
    l.pos <= l.input@.len() && l.input@.len() <= """ + MAXLEN + r"""
}

/// frame: scanners move only the cursor
pub open spec fn frame(a: Lexer, b: Lexer) -> bool {
    a.input@ == b.input@ && a.after_backslash == b.after_backslash
        && a.after_number_or_float == b.after_number_or_float && a.in_path == b.in_path
}

/// UTF-8 continuation byte
pub open spec fn cont(b: u8) -> bool { 0x80 <= b <= 0xBF }

/// `i` is a char boundary of `s` (what str::is_char_boundary computes)
pub open spec fn boundary(s: Seq<u8>, i: int) -> bool {
    i == s.len() || (0 <= i < s.len() && !cont(s[i]))
}

/// The consequence of UTF-8 validity that the boundary argument needs (a `&str` guarantees full
/// validity in the real code; the `[u8]` rewrite loses the type invariant, so it comes back as
/// an explicit hypothesis of T4 only): a continuation byte is always preceded by a non-ASCII
/// byte (so it never starts the input and never directly follows an ASCII byte).
pub open spec fn utf8_shape(s: Seq<u8>) -> bool {
    forall|i: int| 0 <= i < s.len() && cont(#[trigger] s[i]) ==> (i > 0 && s[i - 1] >= 0x80)
}

/// stop clause of the scanners that consume only ASCII bytes (whitespace, digits, numbers):
/// either nothing was consumed or the last consumed byte is ASCII
pub open spec fn ascii_stop(s: Seq<u8>, from: int, to: int) -> bool {
    to == from || (0 < to <= s.len() && s[to - 1] < 0x80)
}

/// stop clause of the scanners that run up to a delimiter (comment, string, identifiers, paths):
/// they stop at the end of input, in front of an ASCII byte, or right after an ASCII byte
pub open spec fn delim_stop(s: Seq<u8>, from: int, to: int) -> bool {
    to == s.len() || (0 <= to < s.len() && s[to] < 0x80) || (from < to <= s.len() && s[to - 1] < 0x80)
}
"""

FROM_KEYWORD_STUB = r"""
impl Kind {
    /// 100-arm match on byte-string literals in the real code; pure; only selects the Kind.
    /// Assumed contract (checked separately by the Kani harness c13_from_keyword_never_eof):
    /// a keyword is never lexed as Eof or as the Tombstone placeholder.
    #[verifier::external_body]
    pub fn from_keyword(word: &[u8]) -> (r: Option<Kind>)
        ensures r != Some(Kind::Eof), r != Some(Kind::Tombstone),
    { unimplemented!() }
}
"""

_PRE = ["wf(*old(self))"]
_POST = ["wf(*final(self))", "frame(*old(self), *final(self))", "final(self).pos >= old(self).pos"]
_INV = ["wf(*self)", "frame(*old(self), *self)", "self.pos >= old(self).pos"]
_DEC = "self.input@.len() - self.pos"


ASCII = "ascii"
DELIM = "delim"


def scanner(ret_kind: str | None, stop: str, extra_ens=(), loops=1, extra_inv=(), loop_form="while"):
    """stop=ASCII: the stop clause is an invariant (holds all along).  stop=DELIM: the stop clause is
    what the loop exit establishes - for `while` loops Verus gets it from the negated condition, for
    `loop { .. break .. }` it is stated as the loop's own `ensures` (proved at every break)."""
    pred = "ascii_stop" if stop == ASCII else "delim_stop"
    extra_ens = list(extra_ens) + [f"{pred}(old(self).input@, old(self).pos as int, final(self).pos as int)"]
    extra_inv = list(extra_inv)
    loop_ens = []
    if stop == ASCII:
        extra_inv.append(f"{pred}(old(self).input@, old(self).pos as int, self.pos as int)")
    elif loop_form == "loop":
        loop_ens.append(f"{pred}(old(self).input@, old(self).pos as int, self.pos as int)")
    c = {"requires": list(_PRE), "ensures": list(_POST) + list(extra_ens)}
    if ret_kind is not None:
        c["ret"] = "k"
        c["ensures"].append(ret_kind)
    c["loops"] = [{"invariant": list(_INV) + list(extra_inv), "ensures": list(loop_ens), "decreases": _DEC, "form": loop_form} for _ in range(loops)]
    return c


NOT_EOF = "k != Kind::Eof && k != Kind::Tombstone"

# functions of the extracted unit that are verified for safety only and need no contract of their own
NO_CONTRACT_NEEDED = ["in_path", "transition"]

CONTRACTS = {
    # the lexer starts at byte 0 of exactly the text it was given (nothing is skipped up front)
    "new": {
        "ret": "r",
        "requires": ["input@.len() <= " + MAXLEN],
        "ensures": ["wf(r)", "r.pos == 0", "r.input@ == input@", "!r.after_backslash", "!r.after_number_or_float"],
    },
    "nth": {
        "ret": "r",
        "requires": ["wf(*self)", "index <= 4"],
        "ensures": ["r == (if self.pos + index < self.input@.len() { self.input@[self.pos + index] } else { 0u8 })"],
    },
    "bump": {
        "ret": "r",
        "requires": ["wf(*old(self))"],
        "ensures": [
            "wf(*final(self))", "frame(*old(self), *final(self))",
            "old(self).pos < old(self).input@.len() ==> (final(self).pos == old(self).pos + 1 && r == Some(old(self).input@[old(self).pos as int]))",
            "old(self).pos >= old(self).input@.len() ==> (final(self).pos == old(self).pos && r.is_none())",
        ],
    },
    "next_token": {
        "ret": "r",
        "requires": ["wf(*old(self))"],
        "ensures": [
            "wf(*final(self))",
            "final(self).input@ == old(self).input@",
            "final(self).pos == old(self).pos + r.len",                                   # T1
            "final(self).pos <= final(self).input@.len()",                               # T1
            "old(self).pos < old(self).input@.len() ==> r.len >= 1",                      # T2
            "(r.kind == Kind::Eof) <==> (old(self).pos == old(self).input@.len())",       # T3
            "r.kind != Kind::Tombstone",  # the placeholder kind is never lexed (to_token_kind panics on it)
            "(utf8_shape(old(self).input@) && boundary(old(self).input@, old(self).pos as int)) ==> boundary(old(self).input@, final(self).pos as int)",  # T4
        ],
    },
    "whitespace": scanner("k == Kind::Whitespace", ASCII),
    "comment": scanner("k == Kind::Comment", DELIM),
    # fv_r is the variable introduced by the logged `break <value>` desugaring
    "string": scanner("k == Kind::String || k == Kind::StringUnterminated", DELIM, extra_inv=["fv_r == Kind::String || fv_r == Kind::StringUnterminated"], loop_form="loop"),
    "hyphen_or_minus": scanner(NOT_EOF, ASCII, loops=0),
    "number": scanner(NOT_EOF, ASCII, loops=0),
    "eat_octal_digits": scanner(None, ASCII),
    "eat_hex_digits": scanner(None, ASCII),
    "eat_decimal_digits": scanner(None, ASCII),
    "cid": scanner("k == Kind::Cid", ASCII, loops=0),
    "glyph_class_name": scanner("k == Kind::NamedGlyphClass", DELIM, loops=0),
    "eat_ident": scanner(None, DELIM, loop_form="loop"),
    "ident": scanner(NOT_EOF, DELIM, loops=0),
    "path": scanner("k == Kind::Path", DELIM),
    "is_special": {"ret": "r", "ensures": ["r ==> (byte != 0 && byte < 0x80)"]},
    "is_ascii_whitespace": {"ret": "r", "ensures": ["r ==> (byte != 0 && byte < 0x80)"]},
}

# Vacuity probes: proof functions that MUST FAIL (their `ensures false` is provable only if the
# hypotheses used by the contracts are contradictory).  The driver requires each of them to be
# reported as an error by Verus on every run; a probe that verifies makes the whole unit UNDECIDED.
PROBES = ["fv_vacuity_probe_wf_and_utf8", "fv_vacuity_probe_stop_clauses"]

LEMMAS = r"""
pub proof fn fv_vacuity_probe_wf_and_utf8(l: Lexer)
    requires wf(l), l.pos < l.input@.len(), l.input@.len() >= 3, utf8_shape(l.input@), boundary(l.input@, l.pos as int),
        l.input@[0] >= 0xC0, cont(l.input@[1]),
    ensures false,
{
}

pub proof fn fv_vacuity_probe_stop_clauses(s: Seq<u8>, a: int, b: int)
    requires 0 <= a < b < s.len(), ascii_stop(s, a, b), delim_stop(s, a, b), utf8_shape(s), boundary(s, a), boundary(s, b),
    ensures false,
{
}

// ---- the tiling theorem: a driver that calls next_token until Eof consumes exactly the input ----
// `fv_driver_consumes_everything` is a CLIENT of the contracts only (it is not code from /repo): an
// executable driver loop, verified against next_token's contract, whose postcondition is the lexer
// half of the property statement: the lexeme lengths are all >= 1, they sum to |input| (so the
// lexeme texts, concatenated, are exactly the input), every lexeme boundary is a char boundary when the
// input is UTF-8 shaped, and the loop terminates (decreases |input| - pos).
pub open spec fn total(s: Seq<usize>) -> int
    decreases s.len(),
{
    if s.len() == 0 { 0 } else { total(s.drop_last()) + s.last() as int }
}

pub proof fn lemma_total_push(s: Seq<usize>, x: usize)
    ensures total(s.push(x)) == total(s) + x as int,
{
    assert(s.push(x).drop_last() =~= s);
}

pub fn fv_driver_consumes_everything(input: &[u8]) -> (lens: Vec<usize>)
    requires input@.len() <= 0x7fff_ffff_ffff_fff0,
    ensures
        total(lens@) == input@.len(),
        forall|i: int| 0 <= i < lens@.len() ==> lens@[i] >= 1,
        lens@.len() <= input@.len(),
{
    let mut lx = Lexer::new(input);
    let mut lens: Vec<usize> = Vec::new();
    loop
        invariant
            wf(lx),
            lx.input@ == input@,
            total(lens@) == lx.pos as int,
            forall|i: int| 0 <= i < lens@.len() ==> lens@[i] >= 1,
            lens@.len() <= lx.pos,
            utf8_shape(input@) ==> boundary(input@, lx.pos as int),
        ensures
            total(lens@) == input@.len(),
            forall|i: int| 0 <= i < lens@.len() ==> lens@[i] >= 1,
            lens@.len() <= input@.len(),
        decreases input@.len() - lx.pos,
    {
        let t = lx.next_token();
        if matches!(t.kind, Kind::Eof) {
            break;
        }
        proof {
            lemma_total_push(lens@, t.len);
        }
        lens.push(t.len);
    }
    lens
}
"""
