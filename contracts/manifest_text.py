"""Human-written texts for MANIFEST.json (claims, not-applicable reasons)."""

ENGINES = [
    {"name": "kani-contracts", "path": "/verif/contracts/kani", "serves_properties": ["C07", "C08", "C13", "C16", "C17", "C19"],
     "kind_free_text": "Kani 0.68 / CBMC 6.11 proof harnesses stating pre => real function => post, appended as a child cfg(kani) module to the real source files in a scratch copy on every run"},
    {"name": "verus-lexer", "path": "/verif/contracts/verus", "serves_properties": ["C13"],
     "kind_free_text": "Verus 0.2026.09.13 on the FEA lexer, extracted mechanically from fea-rs/src/parse/lexer.rs on every run with requires/ensures/invariant/decreases spliced in; unbounded in input length"},
]

NOTES = (
    "Technique family: contract-based deductive verification of the real code. exit 0 = every obligation of the tier discharged; "
    "exit 1 = a verifier refuted a named obligation (VIOLATION line, replay file with the counterexample replayed natively on the real code "
    "where the verifier gives one); exit 2 = undecided (lost anchor, build failure, solver timeout, unsupported construct) - never an alarm. "
    "Bounded harnesses are listed under coverage.bounded and never counted in obligations/discharged. See DESIGN.md."
)

_KANI_NOTE = ("Trusted: Kani/CBMC/CaDiCaL, Kani's pinned nightly std; alloc::fmt::format stubbed where format! is reachable; dependencies are verified through, "
              "not under contract; the job bodies (Work::exec) that call the kernels are not under contract. ")

CLAIMS = {
    "C19": dict(
        engine="kani-contracts", category="proof", design_ref="DESIGN.md §4 C19",
        technique="Kani function-level contracts (pre/post harnesses on the real functions, full input domain, loop-free) discharged by CBMC",
        text=("Partial: the separable conversion kernels are proved over their full input domain - WidthClass::try_from over all u16 (no overflow on any path, so debug and "
              "release agree; Ok <=> 1..=9) and create_component_ref_gid over all finite f64 offsets (a stored offset is the rounded source value or the call is an error, never a clamp) "
              "and all 2x2 entries in [-2,2] (within one 2.14 ulp). CBMC's automatic overflow/cast checks are the 'optimised and debug builds agree' clause. "
              "GlyphInstance::height / vertical_origin (vmtx advance and origin) are proved exact for every representable value and proved to saturate, never wrap, otherwise; that they are *stored clamped instead of rejected* beyond the field's range is a genuine, recorded (not repaired: infallible signature) defect - the check prints KNOWN-FINDING lines for it and exits 0. can_reuse_metrics (the u16 advance rounding that decides USE_MY_METRICS) is proved, for every f64 transform and every pair of advances that fit, to hold iff the stored advances are equal, the 2x2 is the identity and dx rounds to 0, and never to equate an advance beyond 65535 with a representable one; WidthClass::nearest (OS/2 usWidthClass from the wdth default) is proved to be a valid class 1..=9 for every f64 and the nearest class for |p| <= 32768. MetricsBuilder::update's clamps and overflow freedom are cross-listed from C17. "
              "Other narrowing sites named by the property (advance widths, kerning/anchor values, glyph count) are inlined in Context-taking job bodies and are NOT covered."),
        note=_KANI_NOTE + "Upstream guarantee |2x2 entries| <= 2 is a precondition, not proved.",
    ),
    "C16": dict(
        engine="kani-contracts", category="proof", design_ref="DESIGN.md §4 C16",
        technique="Kani contract harnesses on the Rank big-bitset arithmetic (bounded word counts, arbitrary word contents) and NBox kernels, discharged by CBMC",
        text=("Partial: the rule-precedence bookkeeping of the overlay ('combined in rule order, earlier rules first' is encoded in Rank bits and decoded by first_bit_is_set/right_shift_one) "
              "is checked against its abstract value val(r) for every operation (new, |, |=, ==, right_shift_one, first_bit_is_set, is_all_zeros) with arbitrary word contents and word counts 0..3 "
              "(BOUNDED: rule indices < 192); NBox::insert/get clamping is proved for all f64. The box geometry (NBox::overlay_onto beyond the cases listed in the evidence) and the overlay driver are NOT covered."),
        note=_KANI_NOTE + "Rank obligations are bounded by word count (<= 3 words = 192 rules) and are reported under coverage.bounded, not as proved.",
    ),
}

CLAIMS.update({
    "C07": dict(
        engine="kani-contracts", category="proof", design_ref="DESIGN.md §4 C07",
        technique="Kani pre/post contract harnesses on Tent::{new,validate,zeroes,has_non_zero,to_region_axis_coords} over all f64 bit patterns, discharged by CBMC",
        text=("Partial - the region-validity clause only: every tent built by Tent::new never spans zero (all f64 incl. NaN/inf), ordered inputs inside [-1,1] give a tent that validates with min <= peak <= max inside [-1,1], "
              "validate() is exactly the OpenType predicate, and the F2Dot14 region record written to the font is ordered, one-sided and within 2^-15 of the f64. Loop-free over the full domain, so these are proofs. "
              "Master reproduction, scalar range in n-D, region splitting (master_influence writes min/max directly) and order independence are NOT covered: the variation model is HashMap/BTreeMap/f64-sum code outside both verifiers' reach."),
        note=_KANI_NOTE + "OrderedFloat's total order is the comparison used by both code and contract.",
    ),
    "C08": dict(
        engine="kani-contracts", category="proof", design_ref="DESIGN.md §4 C08",
        technique="Kani pre/post contract harnesses on PiecewiseLinearMap::{new,map,reverse} with well-formedness as explicit precondition, discharged by CBMC",
        text=("Partial - exactness at the mapping nodes: PiecewiseLinearMap::new yields a sorted permutation of its input, map() is exact at every node (first occurrence for duplicated nodes), reverse() inverts at the nodes, "
              "the 1-node and empty maps are proved completely; 2- and 3-node maps are BOUNDED checks. Agreement of the fvar+avar route with the source route *between* nodes rests on a stated paper lemma (both routes are piecewise linear with the same breakpoints) "
              "and is not machine-checked: properties of f64 products/quotients do not discharge in CBMC. CoordConverter / avar segment-map kernels are attempted in the thorough tier only."),
        note=_KANI_NOTE + "Paper lemma (piecewise-linear agreement between nodes) and F2Dot14 quantisation error are assumptions.",
    ),
    "C13": dict(
        engine="verus-lexer", category="proof", design_ref="DESIGN.md §4 C13",
        technique="Verus requires/ensures/invariant/decreases on the FEA lexer extracted mechanically from the real source each run (unbounded input length), plus a bounded Kani companion on the unextracted lexer for concrete counterexamples",
        text=("The lexer half of the statement is proved for every input length: each of the 18 lexer functions is total (all index/arithmetic obligations), every loop decreases |input|-pos (no hang), and next_token satisfies "
              "T1 lexemes tile the input (lossless), T2 progress, T3 Eof exactly at end of input, T4 lexemes end on character boundaries; a verified driver theorem lifts them to 'lexeme lengths sum to |input|'. "
              "No-panic / no-byte-lost kernels of the parser's plumbing are under contract with Kani: TokenSet (the recovery sets) is a correct bit set for all 125 lexer kinds and all u128 sets and Kind::to_token_kind is total for every kind the parser can forward (complete); the ${...} identifier splitter tiles its token exactly, validate_glyph_name reports positions inside the name, SourceMap::resolve_range stays inside its chunk (bounded). "
              "The parser, tree sink, rewrite step, validation and include resolution are NOT under contract (Arc/SmolStr/trait-object code): that every lexeme is forwarded exactly once to the tree is an assumption."),
        note="Trusted: Verus + bundled Z3; five assume_specification lines for std functions; usize = 64 bit; |input| <= 2^63-16; the str -> [u8] rewrite (UTF-8 validity becomes an explicit hypothesis where needed); "
             "Kind::from_keyword is external_body with the assumed contract 'never Eof', itself checked by a bounded Kani harness; the extraction's logged rewrites (diff shipped vs verified is written on every run). " + _KANI_NOTE,
    ),
    "C17": dict(
        engine="kani-contracts", category="proof", design_ref="DESIGN.md §4 C17",
        technique="Kani pre/post contract harnesses on MetricsBuilder::{update,build}, GlyphLimits::max and the UNICODE_RANGES table invariant, discharged by CBMC",
        text=("Partial - the hhea/hmtx summary kernel: MetricsBuilder::update is proved over an arbitrary prior state and all inputs (running max advance, min bearings, max extent, clamps only when the true value is outside i16, empty glyphs count for advance only); "
              "GlyphLimits::max is the componentwise maximum; the OS/2 UNICODE_RANGES table is sorted, disjoint and in range (the precondition of its binary search). MetricsBuilder::build (long-metric run trimming: hmtx decodes back to the per-glyph metrics, run minimal, "
              "counts add up) is a BOUNDED check (<= 5 glyphs quick, <= 8 thorough). The per-rule kernel of usMaxContext is proved exact. Bounding boxes, composite limits (HashMap), OS/2 averages, code pages and the max-context table walk are NOT covered."),
        note=_KANI_NOTE,
    ),
})

NOT_APPLICABLE = {
    "C01": "2-safety over process hash seeds and thread schedules; neither verifier models either, and the named mechanisms are .sort() calls inlined in Context-taking job bodies (DESIGN §4 C01)",
    "C02": "concurrent protocol invariant over all interleavings and dynamically created jobs; Kani has no threads, the sequential core holds Box<dyn Work>/HashMap/Arc<AtomicUsize>, and Access::Set is a HashSet (measured intractable) (DESIGN §4 C02)",
    "C03": "needs VariationModel (HashMap+BTreeMap+f64 sums: not expressible in Verus, smallest instance did not finish in Kani in 25 min) + IUP and gvar encoders in write-fonts + a gvar interpreter (DESIGN §4 C03)",
    "C04": "same variation-model dependency plus write-fonts' VariationStoreBuilder/DeltaSetIndexMap; the default-value clause is inlined in Context-taking job bodies; the separable hmtx piece is reported under C17 (DESIGN §4 C04)",
    "C05": "sfnt assembly, checksums, offsets and cross-table index ranges are produced by write-fonts (external, the subject of the property); assuming a contract for it would assume the property (DESIGN §4 C05)",
    "C06": "the two separable functions are HashSet/IndexSet<SmolStr> code, measured intractable for CBMC at size 2-3 and without Verus specs; the rest is inside Context-taking job bodies (DESIGN §4 C06)",
    "C09": "the statement is a function contract on lookup_kerning_value, but its arguments are HashMap/BTreeMap over SmolStr keys: a 2-entry BTreeMap<SmolStr,_> lookup alone does not finish under CBMC, Verus has no spec for them (DESIGN §4 C09)",
    "C10": "anchor-name parsing is str code, mark groups are BTreeMap/IntSet, coordinates go through the variation model, GPOS anchors are encoded by fea-rs builders; no named mechanism is a function either verifier can take (DESIGN §4 C10)",
    "C11": "compiler correctness over all programs: needs a formal semantics of FEA and of OpenType lookup application; a hand-written interpreter as oracle would be translation validation, another family (DESIGN §4 C11)",
    "C12": "relational (option set A vs B) over kurbo BezPath/Affine float geometry inside Context-taking functions; nothing separable (DESIGN §4 C12)",
    "C14": "relational over two whole builds, serde/bincode round trips of dependency code, and file names built with format!/float formatting, which CBMC cannot execute and Verus cannot express (DESIGN §4 C14)",
    "C15": "whole-process termination, stack depth and exit status over arbitrary file trees; the graph walks take a Context; lexer termination is proved and reported under C13 (DESIGN §4 C15)",
    "C18": "name-id allocation and lookup are HashMap<String,_> iteration and string equality inlined in constructors; STAT/feature-parameter ids come from fea-rs (DESIGN §4 C18)",
    "C20": "relational over entry points and file containers; the routes share generate_font_internal (Workload, thread pool, file I/O, plist/XML parsers), which no verifier here can enter (DESIGN §4 C20)",
}
