"""Registry of contract units per property.

Each unit names ONE proof obligation (a Kani harness stating pre => call real fn => post,
or a Verus-verified function), the real functions it puts under contract, and whether it
is `complete` (full input domain; loop-free or loops bounded by a constant of the code) or
`bounded` (loop bound comes from an input size; never counted as proved).

kind:
  obligation  - must verify
  cover       - vacuity guard: every kani::cover! in it must be SATISFIED (reachable)
tiers: which tiers run the unit.
"""

FMT = "alloc :: fmt :: format"
RANDOM_STATE = "std :: hash :: RandomState :: new"  # fixed-key stub, only where a struct under test carries an (unused) HashSet  # stub that must be confirmed in Kani's output when needs_fmt_stub

UNITS = {
    # ------------------------------------------------------------------ C19
    "C19": [
        dict(
            obligation="c19_width_class_try_from_total", engine="kani", crate="fontdrasil",
            src="fontdrasil/src/types.rs",
            functions=["fontdrasil::types::<WidthClass as TryFrom<u16>>::try_from"],
            klass="complete", domain="all 65536 u16 values; loop-free",
            pre="v: any u16",
            post="no arithmetic overflow on any path (debug == release); Ok(w) <=> 1 <= v <= 9; w as u16 == v",
            kind="obligation", tiers=["quick", "thorough"], timeout_s=600, needs_fmt_stub=True,
        ),
        dict(
            obligation="c19_width_class_nearest_is_a_valid_and_nearest_class", engine="kani", crate="fontdrasil",
            src="fontdrasil/src/types.rs", functions=["fontdrasil::types::WidthClass::nearest", "fontdrasil::types::WidthClass::to_percent", "fontdrasil::types::WidthClass::all_values"],
            klass="complete", domain="every f64 width percentage with |p| <= 32768 (what a 16.16 fvar axis default can carry); the loop runs over the nine constant classes",
            pre="|p| <= 32768",
            post="nearest(p) as u16 (the value written to OS/2 usWidthClass) is in 1..=9 and equals 1 + #{midpoints m in 56.25, 68.75, 81.25, 93.75, 106.25, 118.75, 137.5, 175 : p > m}: the nearest class, ties to the narrower, out-of-range percentages to the end class",
            kind="obligation", tiers=["quick", "thorough"], timeout_s=600,
        ),
        dict(
            obligation="c19_width_class_nearest_total", engine="kani", crate="fontdrasil",
            src="fontdrasil/src/types.rs", functions=["fontdrasil::types::WidthClass::nearest"],
            klass="complete", domain="every f64 bit pattern (NaN, +/-inf included)",
            pre="any p", post="no panic (the reduce never sees an empty sequence) and the class number is in 1..=9",
            kind="obligation", tiers=["quick", "thorough"], timeout_s=600,
        ),
        dict(
            obligation="c19_width_class_cover", engine="kani", crate="fontdrasil",
            src="fontdrasil/src/types.rs", functions=[], klass="complete", domain="", pre="", post="Ok and Err both reachable; classes 1, 5, 9 reachable through nearest()",
            kind="cover", tiers=["quick", "thorough"], timeout_s=600, needs_fmt_stub=True,
        ),
        dict(
            obligation="c19_component_offset_rounded_or_rejected", engine="kani", crate="fontbe",
            src="fontbe/src/glyphs.rs", functions=["fontbe::glyphs::create_component_ref_gid"],
            klass="complete", domain="all finite f64 offsets e,f; any u16 glyph id; loop-free",
            pre="e, f finite; 2x2 = identity",
            post="Ok((c,_)) => c.x == floor(e + 0.5) and c.y == floor(f + 0.5) exactly, and c.glyph == gid (a stored offset is the OT-rounded source value, never a clamp, also at rounding ties)",
            kind="obligation", tiers=["quick", "thorough"], timeout_s=600,
        ),
        dict(
            obligation="c19_component_offset_in_range_accepted", engine="kani", crate="fontbe",
            src="fontbe/src/glyphs.rs", functions=["fontbe::glyphs::create_component_ref_gid"],
            klass="complete", domain="all f64 e,f in [-32768, 32767]; loop-free",
            pre="-32768 <= e,f <= 32767",
            post="result is Ok and offsets == floor(v + 0.5) exactly",
            kind="obligation", tiers=["quick", "thorough"], timeout_s=600,
        ),
        dict(
            obligation="c19_component_2x2_within_one_ulp", engine="kani", crate="fontbe",
            src="fontbe/src/glyphs.rs", functions=["fontbe::glyphs::create_component_ref_gid"],
            klass="complete", domain="all f64 a,d in [-2,2]; loop-free",
            pre="-2 <= a,d <= 2 (upstream decomposition guarantee); b = c = 0",
            post="Ok; |F2Dot14 bits - v*16384| <= 1 for xx, yy; xy == yx == 0",
            kind="obligation", tiers=["quick", "thorough"], timeout_s=900,
        ),
        dict(
            obligation="c19_use_my_metrics_only_when_advances_and_placement_agree", engine="kani", crate="fontbe",
            src="fontbe/src/glyphs.rs", functions=["fontbe::glyphs::can_reuse_metrics"],
            klass="complete", domain="every f64 bit pattern for the six transform coefficients (NaN / inf included); every pair of advances in [-0.5, 65535.5); loop-free apart from the 6-element coefficient compare",
            pre="both advances fit the hmtx field",
            post="can_reuse_metrics <=> floor(wg+0.5) == floor(wc+0.5) and 2x2 == identity exactly and floor(dx+0.5) == 0 (dy free): USE_MY_METRICS is set only when the stored advances and the stored placement agree",
            kind="obligation", tiers=["quick", "thorough"], timeout_s=600,
        ),
        dict(
            obligation="c19_use_my_metrics_never_equates_an_unrepresentable_advance_with_a_representable_one", engine="kani", crate="fontbe",
            src="fontbe/src/glyphs.rs", functions=["fontbe::glyphs::can_reuse_metrics"],
            klass="complete", domain="every finite composite advance >= 65535.5 against every component advance in [-0.5, 65534.5); identity transform; loop-free",
            pre="wg does not fit u16, wc rounds to <= 65534",
            post="can_reuse_metrics is false: the u16 rounding of the advance saturates and never wraps into the representable range",
            kind="obligation", tiers=["quick", "thorough"], timeout_s=600,
        ),
        dict(
            obligation="c19_component_cover", engine="kani", crate="fontbe",
            src="fontbe/src/glyphs.rs", functions=[], klass="complete", domain="", pre="", post="Ok reachable incl. large +/- offsets; USE_MY_METRICS granted and refused both reachable",
            kind="cover", tiers=["quick", "thorough"], timeout_s=600,
        ),
    ],
}


# ------------------------------------------------------------------ C16
def _c16_units():
    us = []
    pairs = [(0, 1), (0, 2), (1, 0), (1, 1), (1, 2), (1, 3), (2, 0), (2, 1), (2, 2), (2, 3), (3, 1), (3, 2), (3, 3)]
    src = "fontir/src/feature_variations.rs"
    thorough_pairs = [(4, 1), (1, 4), (4, 3), (3, 4), (4, 4), (5, 2), (2, 5)]
    for la, lb in pairs + thorough_pairs:
        tiers = ["thorough"] if (la, lb) in thorough_pairs else ["quick", "thorough"]
        bound = f"self has exactly {la} stored u64 words, rhs exactly {lb}; word contents arbitrary (rule indices < {64 * max(la, lb, 1)})"
        us.append(dict(obligation=f"c16_rank_bitor_{la}_{lb}", engine="kani", crate="fontir", src=src,
                       functions=["fontir::feature_variations::<&Rank as BitOr<&Rank>>::bitor"], klass="bounded", domain=bound,
                       pre="a, b arbitrary ranks of the stated word counts", post="val(&a | &b) == val(a) | val(b) (word-wise, aligned at the least significant word)",
                       kind="obligation", tiers=tiers, timeout_s=900))
        us.append(dict(obligation=f"c16_rank_bitor_assign_{la}_{lb}", engine="kani", crate="fontir", src=src,
                       functions=["fontir::feature_variations::<Rank as BitOrAssign<&Rank>>::bitor_assign"], klass="bounded", domain=bound,
                       pre="a, b arbitrary ranks of the stated word counts", post="after a |= &b: val(a') == val(a) | val(b)",
                       kind="obligation", tiers=tiers, timeout_s=900))
        us.append(dict(obligation=f"c16_rank_eq_{la}_{lb}", engine="kani", crate="fontir", src=src,
                       functions=["fontir::feature_variations::<Rank as PartialEq>::eq"], klass="bounded", domain=bound,
                       pre="a, b arbitrary ranks of the stated word counts", post="(a == b) <=> val(a) == val(b); leading zero words are insignificant",
                       kind="obligation", tiers=tiers, timeout_s=900))
    for l in range(6):
        tiers = ["thorough"] if l >= 4 else ["quick", "thorough"]
        bound = f"exactly {l} stored u64 words, contents arbitrary"
        us.append(dict(obligation=f"c16_rank_shift_{l}", engine="kani", crate="fontir", src=src,
                       functions=["fontir::feature_variations::Rank::right_shift_one"], klass="bounded", domain=bound,
                       pre="a arbitrary", post="val(a') == val(a) / 2 (bit 0 of word j+1 moves into bit 63 of word j)",
                       kind="obligation", tiers=tiers, timeout_s=900))
        us.append(dict(obligation=f"c16_rank_probe_{l}", engine="kani", crate="fontir", src=src,
                       functions=["fontir::feature_variations::Rank::first_bit_is_set", "fontir::feature_variations::Rank::is_all_zeros"], klass="bounded", domain=bound,
                       pre="a arbitrary", post="first_bit_is_set <=> val odd; is_all_zeros <=> val == 0",
                       kind="obligation", tiers=tiers, timeout_s=900))
    for la, lb in [(1, 1), (2, 2), (1, 2), (2, 1), (3, 2), (0, 1)]:
        us.append(dict(obligation=f"c16_rank_sort_key_orders_by_rule_count_{la}_{lb}", engine="kani", crate="fontir", src=src,
                       functions=["fontir::feature_variations::Rank::count_ones (the overlay's sort key, used as Reverse(count_ones); the anchor pins the sort_by_key line)"], klass="bounded",
                       domain=f"a has exactly {la} stored words, b exactly {lb}; contents arbitrary",
                       pre="a, b arbitrary ranks", post="key(a) < key(b) <=> popcount(val a) > popcount(val b): boxes with more contributing rules sort first (first matching box wins)",
                       kind="obligation", tiers=["quick", "thorough"], timeout_s=600))
    us.append(dict(obligation="c16_rank_new_is_power_of_two", engine="kani", crate="fontir", src=src,
                   functions=["fontir::feature_variations::Rank::new"], klass="bounded", domain="rule index i < 192 (1..3 words)",
                   pre="i < 192", post="val(Rank::new(i)) == 2^i", kind="obligation", tiers=["quick", "thorough"], timeout_s=900))
    us.append(dict(obligation="c16_nbox_insert_get_clamps", engine="kani", crate="fontir", src=src,
                   functions=["fontir::feature_variations::NBox::insert", "fontir::feature_variations::NBox::get"], klass="complete",
                   domain="every non-NaN f64 (incl. +/-inf) or None for each bound, one axis inserted into an empty box; loop-free apart from the 4-byte Tag compare",
                   pre="min, max: Option<non-NaN f64>", post="get(axis) == (max(min,-1), min(max,+1)) with None = open end; interval inside [-1,1]; a never-inserted axis reads (-1,+1)",
                   kind="obligation", tiers=["quick", "thorough"], timeout_s=900))
    us.append(dict(obligation="c16_rank_cover", engine="kani", crate="fontir", src=src, functions=[], klass="complete", domain="", pre="",
                   post="generator reaches non-zero multi-word ranks, equal ranks of different length, odd ranks", kind="cover", tiers=["quick", "thorough"], timeout_s=900))
    return us


UNITS["C16"] = _c16_units()


# ------------------------------------------------------------------ C07
def _k(ob, crate, src, fns, klass, domain, pre, post, tiers=("quick", "thorough"), timeout_s=900, kind="obligation", **kw):
    return dict(obligation=ob, engine="kani", crate=crate, src=src, functions=fns, klass=klass, domain=domain, pre=pre, post=post,
                kind=kind, tiers=list(tiers), timeout_s=timeout_s, **kw)


_VAR = "fontdrasil/src/variations.rs"
UNITS["C07"] = [
    _k("c07_tent_new_never_spans_zero", "fontdrasil", _VAR, ["fontdrasil::variations::Tent::new"], "complete", "all f64 bit patterns for min, peak, max (NaN, inf, -0.0 included); loop-free",
       "any (min, peak, max)", "t.peak == peak; peak > 0 => (t.min, t.max) == (0, max); else (t.min, t.max) == (min, 0); never spans zero: !(t.min < 0 && t.max > 0)"),
    _k("c07_tent_new_valid_for_ordered_inputs", "fontdrasil", _VAR, ["fontdrasil::variations::Tent::new", "fontdrasil::variations::Tent::validate"], "complete", "all f64 with -1 <= min <= peak <= max <= 1; loop-free",
       "-1 <= min <= peak <= max <= 1", "t.validate() and -1 <= t.min <= t.peak <= t.max <= 1"),
    _k("c07_tent_validate_iff_spec", "fontdrasil", _VAR, ["fontdrasil::variations::Tent::validate"], "complete", "all f64 bit patterns; loop-free",
       "any tent", "validate() <=> min <= peak <= max and not (min < 0 < max)  (OrderedFloat order)"),
    _k("c07_tent_zeroes_and_has_non_zero", "fontdrasil", _VAR, ["fontdrasil::variations::Tent::zeroes", "fontdrasil::variations::Tent::has_non_zero"], "complete", "all non-NaN f64; loop-free",
       "any non-NaN tent", "zeroes() == (0,0,0), valid, !has_non_zero; has_non_zero <=> not (0,0,0)"),
    _k("c07_tent_region_axis_coords_valid", "fontdrasil", _VAR, ["fontdrasil::variations::Tent::to_region_axis_coords", "fontdrasil::coords::NormalizedCoord::to_f2dot14"], "complete",
       "all f64 valid tents inside [-1,1]; loop-free", "valid tent inside [-1,1]", "F2Dot14 start <= peak <= end, not spanning zero, inside [-1,1], each within 2^-15 of its f64"),
    _k("c07_scalar_at_one_axis_peak_and_outside", "fontdrasil", _VAR, ["fontdrasil::variations::VariationRegion::scalar_at", "fontdrasil::variations::VariationRegion::scalar_at_with_args"], "bounded",
       "ONE axis; every valid tent inside [-1,1]; every location v in [-1,1] with v == peak or v outside (min,max)", "valid one-axis region",
       "scalar == 1 at the peak and for the always-on (0,0,0) tent; scalar == 0 at or beyond min/max", stubs=[RANDOM_STATE]),
    _k("c07_scalar_at_missing_axis_reads_default", "fontdrasil", _VAR, ["fontdrasil::variations::VariationRegion::scalar_at"], "bounded",
       "ONE axis in the region, empty location", "valid one-axis region, location without that axis", "axis read as 0: scalar == 1 iff the tent peaks at 0, else 0", stubs=[RANDOM_STATE]),
    _k("c07_rounding_behaviour_apply_within_half", "fontdrasil", _VAR, ["fontdrasil::variations::RoundingBehaviour::apply", "<f64 as RoundTiesEven>::round_ties_even", "<kurbo::Vec2 as RoundTiesEven>::round_ties_even"], "complete",
       "every finite f64 with |v| <= 2^51; loop-free", "any delta value",
       "None is the identity bit for bit; RoundTiesEven yields an integer within 0.5 of the value, exact halves go to the even neighbour; Vec2 is rounded coordinate-wise (the 'within 0.5 with rounding' clause rests on this kernel)"),
    _k("c07_location_from_vec_is_a_map_3", "fontdrasil", "fontdrasil/src/coords.rs", ["fontdrasil::coords::Location::from(Vec)", "fontdrasil::coords::Location::get", "fontdrasil::coords::Location::contains"], "bounded",
       "exactly 3 (tag, coordinate) pairs, any order, repeated tags allowed; any probe tag", "3 pairs",
       "representation sorted with unique tags; get(t) == the last coordinate supplied for t, None if absent; contains <=> get is Some  (the location lookup scalar_at and the model rely on)"),
    _k("c07_tent_cover", "fontdrasil", _VAR, [], "complete", "", "", "positive, negative and invalid tents reachable", kind="cover"),
]

# ------------------------------------------------------------------ C08
_PLM = "fontdrasil/src/piecewise_linear_map.rs"
_PLMF = "fontdrasil::piecewise_linear_map::PiecewiseLinearMap::"
UNITS["C08"] = [
    _k("c08_plm_new_sorted_permutation_3", "fontdrasil", _PLM, [_PLMF + "new"], "bounded", "exactly 3 mapping pairs, arbitrary finite values |v| <= 1e9, any order, duplicates allowed",
       "3 finite pairs", "nodes in canonical lexicographic (from, to) order - independent of the order supplied; output pairs are a permutation of the input pairs"),
    _k("c08_plm_map_exact_at_nodes_3", "fontdrasil", _PLM, [_PLMF + "map"], "bounded", "exactly 3 nodes, strictly increasing finite `from`, arbitrary finite `to`",
       "well-formed 3-node map", "map(from[k]) == to[k] for every node k"),
    _k("c08_plm_map_exact_at_nodes_2", "fontdrasil", _PLM, [_PLMF + "map"], "bounded", "exactly 2 nodes", "well-formed 2-node map", "map(from[k]) == to[k]"),
    _k("c08_plm_map_one_node_and_empty", "fontdrasil", _PLM, [_PLMF + "map"], "complete", "the 1-node map (all finite values) and the empty map (all non-NaN values); loop-free apart from the binary search over <= 1 element",
       "1-node map / empty map", "exact at the node; empty map is the identity bit-for-bit"),
    _k("c08_plm_map_duplicates_first_wins_3", "fontdrasil", _PLM, [_PLMF + "map"], "bounded", "exactly 3 nodes, non-decreasing `from` (duplicates allowed)",
       "sorted 3-node map", "map at a duplicated `from` returns the FIRST node's `to` (ufo2ft #978)"),
    _k("c08_plm_reverse_inverts_at_nodes_3", "fontdrasil", _PLM, [_PLMF + "reverse", _PLMF + "map"], "bounded", "exactly 3 nodes, strictly increasing from and to",
       "strictly monotone 3-node map", "reverse() is well-formed and reverse().map(to[k]) == from[k]"),
    _k("c08_plm_reverse_well_formed_3", "fontdrasil", _PLM, [_PLMF + "reverse"], "bounded", "exactly 3 nodes, sorted `from`, ARBITRARY finite `to` (decreasing / flat allowed)",
       "well-formed 3-node map", "reverse() has 3 nodes, is in canonical (from, to) order, and contains every swapped pair"),
    _k("c08_plm_map_exact_at_nodes_4", "fontdrasil", _PLM, [_PLMF + "map"], "bounded", "exactly 4 nodes, non-decreasing `from` (duplicates allowed)",
       "sorted 4-node map", "map(from[k]) == to[first node with that from]", tiers=("thorough",), timeout_s=1800),
    _k("c08_plm_new_sorted_permutation_4", "fontdrasil", _PLM, [_PLMF + "new"], "bounded", "exactly 4 mapping pairs",
       "4 finite pairs", "from sorted ascending; output pairs are a permutation of the input pairs", tiers=("thorough",), timeout_s=1800),
    _k("c08_user_coord_into_fixed_is_nearest_16_16", "fontdrasil", "fontdrasil/src/coords.rs", ["fontdrasil::coords::<Fixed as From<UserCoord>>::from"], "complete",
       "every f64 user coordinate in [-32768, 32767]; every i32 16.16 bit pattern in that range; loop-free", "v inside the 16.16 range",
       "the fvar value is the nearest 16.16 value (|bits - v*65536| <= 0.5); a user coordinate that is a 16.16 value is stored exactly"),
    _k("c08_normalized_coord_into_f2dot14_is_nearest_2_14", "fontdrasil", "fontdrasil/src/coords.rs", ["fontdrasil::coords::<F2Dot14 as From<NormalizedCoord>>::from", "fontdrasil::coords::NormalizedCoord::to_f2dot14"], "complete",
       "every f64 in [-1, 1]; loop-free", "v in [-1, 1]", "the avar coordinate is the nearest 2.14 value; -1, 0, +1 are exact; to_f2dot14 and Into agree"),
    _k("c08_converter_sends_nodes_to_minus1_0_plus1_3", "fontdrasil", "fontdrasil/src/coords.rs",
       ["fontdrasil::coords::<UserSpace as ConvertSpace<DesignSpace>>::convert_coord", "<DesignSpace as ConvertSpace<NormalizedSpace>>::convert_coord", "<UserSpace as ConvertSpace<NormalizedSpace>>::convert_coord", "<NormalizedSpace as ConvertSpace<DesignSpace>>::convert_coord", "<NormalizedSpace as ConvertSpace<UserSpace>>::convert_coord"], "bounded",
       "a CoordConverter written down literally in the shape new() builds for a strictly increasing 3-node mapping with the default in the middle (new() itself does not discharge); node values arbitrary in +/-1e6", "converter well-formed (maps sorted; design min/default/max anchored at -1/0/+1)",
       "user node k -> design node k -> -1 / 0 / +1, directly and through the two chained maps; and back from the normalized anchors to the design and user nodes", timeout_s=1200),
    _k("c08_avar_default_segment_map_is_required_triple", "fontbe", "fontbe/src/avar.rs", ["fontbe::avar::default_segment_map"], "complete", "no inputs",
       "-", "exactly the three maps -1:-1, 0:0, 1:1 in increasing order"),
    _k("c08_plm_cover", "fontdrasil", _PLM, [], "complete", "", "", "node branch and extrapolation branch reachable with a non-trivial map", kind="cover"),
]

# ------------------------------------------------------------------ C17
_MET = "fontbe/src/metrics_and_limits.rs"
UNITS["C17"] = [
    _k("c17_metrics_update_contract", "fontbe", _MET, ["fontbe::metrics_and_limits::MetricsBuilder::update"], "complete",
       "arbitrary prior builder state; all u16 advances, i16 lsb, bounds in None | Some(0..=65535); loop-free",
       "any state, any (advance, lsb, bounds)", "appends exactly (advance, lsb); advance_max' = max; non-empty: min_lsb' = min, max_extent' = max(.., clamp_i16(lsb+bounds)), min_rsb' = min(.., clamp_i16(adv-lsb-bounds)); empty: unchanged; no overflow"),
    _k("c17_metrics_build_contract_n0_to_5", "fontbe", _MET, ["fontbe::metrics_and_limits::MetricsBuilder::build"], "bounded", "0..=5 glyphs, arbitrary advances and bearings, arbitrary summary state",
       "n <= 5 pushed metrics", "|long| + |lsbs| == n; n>0 => |long| >= 1; long == prefix; every trimmed glyph's advance == last long advance and keeps its lsb; run minimal; header fields copied (None => 0)"),
    _k("c17_metrics_build_contract_n6_to_8", "fontbe", _MET, ["fontbe::metrics_and_limits::MetricsBuilder::build"], "bounded", "6..=8 glyphs",
       "6 <= n <= 8", "same as n0_to_5", tiers=("thorough",), timeout_s=1800),
    _k("c17_glyph_limits_max_componentwise", "fontbe", _MET, ["fontbe::metrics_and_limits::GlyphLimits::max"], "complete", "all u16 triples; loop-free", "any a, b", "componentwise maximum"),
    _k("c17_unicode_ranges_table_well_formed", "fontbe", "fontbe/src/os2.rs", ["fontbe::os2::UNICODE_RANGES (precondition of add_unicode_range_bits' binary search)"], "complete",
       "the constant table (loop bounded by its length)", "-", "sorted by start, from <= to <= 0x10FFFF, pairwise disjoint, bit < 128"),
    _k("c17_max_context_of_rule_is_exact", "fontbe", "fontbe/src/os2/max_context.rs", ["fontbe::os2::max_context::max_context_of_rule"], "complete",
       "all input / lookahead counts whose context length fits u16; loop-free", "input + lookahead + 1 <= 65535",
       "contextual -> input length; chained -> input + lookahead; reverse chained -> 1 + lookahead (the per-rule kernel of OS/2 usMaxContext)"),
    _k("c17_max_context_without_layout_tables_is_zero", "fontbe", "fontbe/src/os2/max_context.rs", ["fontbe::os2::max_context::compute_max_context_value"], "complete", "no inputs", "-",
       "no GSUB and no GPOS: usMaxContext is 0"),
    _k("c17_component_affine_round_trip", "fontbe", "fontbe/src/glyphs.rs", ["fontbe::glyphs::affine_for", "fontbe::glyphs::create_component_ref_gid"], "complete",
       "every 2x2 scale pair in [-2,2]^2 and every offset pair in [-32768, 32767]^2; loop-free", "representable component transform",
       "affine_for inverts create_component_ref_gid: offsets read back exactly as the OT-rounded source offsets, scales within one 2.14 unit, zero shear stays zero (composite bounding boxes are computed from the components as read back)"),
    _k("c17_metrics_cover", "fontbe", _MET, [], "complete", "", "", "full / partial / no trimming and both clamps reachable", kind="cover"),
]

# ------------------------------------------------------------------ C13
_LEXFNS = ["new", "nth", "bump", "next_token", "whitespace", "comment", "string", "hyphen_or_minus", "number", "eat_octal_digits", "eat_hex_digits",
           "eat_decimal_digits", "cid", "glyph_class_name", "eat_ident", "ident", "path", "is_special", "is_ascii_whitespace"]
_LEXPOST = {
    "next_token": "T1 final.pos == old.pos + r.len <= |input| (lossless tiling); T2 old.pos < |input| => r.len >= 1 (progress); T3 r.kind == Eof <=> old.pos == |input|; r.kind is never the Tombstone placeholder; T4 utf8_shape(input) and old.pos on a char boundary => final.pos on a char boundary; input unchanged; all index/arith obligations",
    "new": "the lexer starts at byte 0 of exactly the text it was given: pos == 0, input unchanged, mode flags clear",
    "nth": "returns input[pos+index] or 0 past the end; no overflow",
    "bump": "advances by exactly one byte iff pos < |input| and returns it; frame",
}
UNITS["C13"] = [
    dict(obligation=f"verus_lexer_{fn}", engine="verus", verus_fn=fn, crate="fea-rs", src="fea-rs/src/parse/lexer.rs",
         functions=[f"fea_rs::parse::lexer::{'Lexer::' if fn not in ('is_special', 'is_ascii_whitespace') else ''}{fn}"],
         klass="complete", domain="every input length (unbounded), every byte content",
         pre="wf(lexer): pos <= |input| <= 2^63-16",
         post=_LEXPOST.get(fn, "wf preserved; frame (only the cursor moves); pos monotone; returned kind is never Eof; every loop decreases |input| - pos; no index/arith failure"),
         kind="obligation", tiers=["quick", "thorough"], timeout_s=600)
    for fn in _LEXFNS
] + [
    dict(obligation="verus_lexer_driver_consumes_everything", engine="verus", verus_fn="fv_driver_consumes_everything", crate="fea-rs", src="fea-rs/src/parse/lexer.rs", functions=[],
         klass="complete", domain="every input (unbounded)", pre="|input| <= 2^63-16",
         post="a driver loop that calls next_token until Eof (a client of the contract only) terminates with lexeme lengths all >= 1 that sum to |input|, at most |input| lexemes, every boundary a char boundary for UTF-8-shaped input: the lexer half of 'token texts concatenated are exactly the input'",
         kind="obligation", tiers=["quick", "thorough"], timeout_s=600),
    _k("c13_lexer_contract_inputs_up_to_2_bytes", "fea-rs", "fea-rs/src/parse/lexer.rs", ["fea_rs::parse::lexer::Lexer::next_token (real, unextracted)"], "bounded",
       "every valid UTF-8 input of <= 2 bytes, first three tokens", "valid UTF-8, |input| <= 2", "lexer starts at byte 0; T1, T2, T3, T4 on each of the first three next_token calls; third lexeme is Eof", timeout_s=1200, companion=True, on_demand=True),
    _k("c13_lexer_contract_inputs_of_3_bytes", "fea-rs", "fea-rs/src/parse/lexer.rs", ["fea_rs::parse::lexer::Lexer::next_token (real, unextracted)"], "bounded",
       "every valid UTF-8 input of exactly 3 bytes, first two tokens", "valid UTF-8, |input| == 3", "lexer starts at byte 0; T1, T2, T3, T4 on the first two next_token calls", timeout_s=1800, on_demand=True, companion=True),
    _k("c13_from_keyword_never_eof", "fea-rs", "fea-rs/src/parse/lexer/lexeme.rs", ["fea_rs::parse::lexer::lexeme::Kind::from_keyword"], "bounded",
       "every byte word of length <= 26 (longest keyword has 25 bytes)", "|word| <= 26", "result is never Some(Eof/Tombstone/Ident/Whitespace); empty word => None  (the contract the Verus proof assumes for this external_body function)", timeout_s=900),
    _k("c13_token_set_is_a_set_of_kinds", "fea-rs", "fea-rs/src/parse/lexer/token_set.rs",
       ["fea_rs::parse::lexer::token_set::TokenSet::{new,add,union,contains}", "fea_rs::parse::lexer::token_set::mask", "<TokenSet as From<Kind>>::from"], "complete",
       "every lexer Kind (all 125) and every set (all u128 bit patterns); loop-free", "any kinds k, q; any sets s, t",
       "Tombstone (the last Kind) < 128, so mask() never overflows (debug == release, no aliasing of kinds); EMPTY contains nothing; add/union/new/From are the set operations; membership of one kind is independent of other kinds - what the parser's recovery ('skip to a recovery set') relies on"),
    _k("c13_token_set_recovery_constants", "fea-rs", "fea-rs/src/parse/lexer/token_set.rs", ["TokenSet::{TOP_LEVEL,TOP_SEMI,SEMI,SEMI_RBRACE}"], "complete", "constants", "-",
       "top-level keywords and ';' are members as named; Eof is a member of none (skipping stops at end of input by the at_eof test)"),
    _k("c13_to_token_kind_total_for_every_forwarded_kind", "fea-rs", "fea-rs/src/parse/lexer/lexeme.rs", ["fea_rs::parse::lexer::lexeme::Kind::to_token_kind", "fea_rs::parse::lexer::lexeme::Kind::is_trivia"], "complete",
       "every lexer Kind except StringUnterminated / HexEmpty (replaced by the parser before forwarding) and Tombstone (never lexed: Verus contract); loop-free", "kind is forwardable",
       "to_token_kind does not panic; only Eof maps to Eof; trivia are exactly Comment / Whitespace / Backslash"),
    _k("c13_source_map_resolve_range_stays_inside_its_chunk_2", "fea-rs", "fea-rs/src/parse/source.rs", ["fea_rs::parse::source::SourceMap::resolve_range", "fea_rs::parse::source::SourceMap::add_entry"], "bounded",
       "a map of exactly 2 adjacent chunks (arbitrary sizes / displacements < 2^40); any global range inside one chunk", "range inside one chunk",
       "attributed to that chunk's file; length preserved; start displaced by the chunk's offset; result inside the part of the file the chunk covers; no panic / overflow",
       tiers=("thorough",), timeout_s=1800),
    _k("c13_source_map_ignores_empty_chunks", "fea-rs", "fea-rs/src/parse/source.rs", ["fea_rs::parse::source::SourceMap::add_entry"], "complete", "any position < 2^40; loop-free", "-",
       "an empty chunk is not recorded, a non-empty one is"),
    _k("c13_glyphs_number_ident_split_tiles_the_token_up_to_4_bytes", "fea-rs", "fea-rs/src/parse/grammar/metrics.rs",
       ["fea_rs::parse::grammar::metrics::split_ident_with_hyphen", "fea_rs::parse::grammar::metrics::take_next_token"], "bounded",
       "every valid UTF-8 token text of 1..=4 bytes", "any token text",
       "the splitter does not panic and leaves either an empty buffer or ranges that start at 0, have no gaps, are non-empty and cover the whole token (the precondition under which Parser::split_remap_current does not panic and loses no byte)", timeout_s=1200),
    _k("c13_glyphs_number_ident_split_tiles_the_token_5_bytes", "fea-rs", "fea-rs/src/parse/grammar/metrics.rs",
       ["fea_rs::parse::grammar::metrics::split_ident_with_hyphen", "fea_rs::parse::grammar::metrics::take_next_token"], "bounded",
       "every valid UTF-8 token text of exactly 5 bytes", "any token text", "same as the <= 4 byte obligation", tiers=("thorough",), timeout_s=1800),
    _k("c13_validate_glyph_name_total_and_positions_in_range", "fea-rs", "fea-rs/src/parse/grammar/glyph.rs", ["fea_rs::parse::grammar::glyph::validate_glyph_name"], "bounded",
       "every byte string of 1..=6 bytes", "non-empty name",
       "no panic; Invalid(pos): pos inside the name, at the first disallowed byte (the caller slices raw[pos..]); Valid / MaybeRange: every byte allowed; MaybeRange <=> a '-' is present (the trigger of glyph-range splitting)"),
    _k("c13_positional_diagnostics_lie_inside_the_source", "fea-rs", "fea-rs/src/parse/parser.rs", ["fea_rs::parse::parser::Parser::err_before_ws", "fea_rs::parse::parser::Parser::warn_before_ws"], "bounded",
       "valid UTF-8 texts of <= 3 bytes; the parser placed directly in ANY state with buf[0].start_pos <= |text| on a char boundary (Parser::new bypassed), incl. the end-of-input state", "parser invariant start_pos <= |text|",
       "the emitted diagnostic's range lies inside the text and both ends are character boundaries"),
    _k("c13_lexer_cover", "fea-rs", "fea-rs/src/parse/lexer.rs", [], "complete", "", "", "identifier, non-ASCII character, number reachable in the companion's input generator", kind="cover", timeout_s=1800, on_demand=True),
]

_IR = "fontir/src/ir.rs"
for _nm, _fn, _dom, _pre, _post in [
    ("c19_glyph_height_in_range_is_exact_rounding", "height", "every explicit height h with -0.5 <= h < 65535.5; loop-free", "h fits the vmtx advance field", "result == floor(h + 0.5)"),
    ("c19_glyph_height_out_of_range_never_wraps", "height", "every finite h outside [-0.5, 65535.5); loop-free", "h does not fit", "result is the nearest bound (0 / 65535): never a wrapped value"),
    ("c19_glyph_height_out_of_range_is_not_silently_stored", "height", "every finite h >= 65535.5; loop-free", "h does not fit", "from the property statement: the value must not be stored as something else (FAILS today: known finding C19-advance-height-saturates)"),
    ("c19_vertical_origin_in_range_is_exact_rounding", "vertical_origin", "every v with -32768.5 <= v < 32767.5; loop-free", "v fits i16", "result == floor(v + 0.5)"),
    ("c19_vertical_origin_out_of_range_never_wraps", "vertical_origin", "every finite v outside that range; loop-free", "v does not fit", "result is the nearest bound: never a wrapped value"),
    ("c19_vertical_origin_out_of_range_is_not_silently_stored", "vertical_origin", "every finite v outside that range; loop-free", "v does not fit", "from the property statement: the value must not be stored as something else (FAILS today: known finding C19-vertical-origin-saturates)"),
]:
    UNITS["C19"].insert(-1, _k(_nm, "fontir", _IR, [f"fontir::ir::GlyphInstance::{_fn}"], "complete", _dom, _pre, _post, timeout_s=600))
for _nm, _dom, _pre, _post in [
    ("c19_phantom_points_carry_the_rounded_advance", "every width in [-0.5, 65535.5), heights / origins within +/-10000, vertical on or off; loop-free", "representable advance width",
     "exactly four phantom points (0,0), (floor(w+0.5),0), (0,top), (0,bottom): the gvar phantom advance is the OT-rounded width, top/bottom = rounded origin and origin - height (or 0,0 without vertical metrics)"),
    ("c19_phantom_advance_out_of_range_never_wraps", "every finite width outside [-0.5, 65535.5); loop-free", "w does not fit u16", "the phantom advance is the nearest bound (0 / 65535): never a wrapped value"),
    ("c19_phantom_advance_out_of_range_is_not_silently_stored", "every finite width >= 65535.5; loop-free", "w does not fit u16",
     "from the property statement ('advances beyond 65535'): must not be stored as something else (FAILS today: known finding C19-phantom-advance-width-saturates)"),
]:
    UNITS["C19"].insert(-1, _k(_nm, "fontir", _IR, ["fontir::ir::GlyphInstance::add_phantom_points"], "complete", _dom, _pre, _post, timeout_s=600))
UNITS["C19"].insert(-1, _k("c19_glyph_height_cover", "fontir", _IR, [], "complete", "", "", "ordinary, saturated and fallback paths reachable", kind="cover", timeout_s=600))

# C19 cross-listing: MetricsBuilder::update's i16 clamps / overflow freedom are also a C19 obligation
UNITS["C19"].insert(-1, dict(next(u for u in UNITS["C17"] if u["obligation"] == "c17_metrics_update_contract")))

# Assumptions common to every Kani unit (reported in every evidence file)
KANI_TRUSTED = [
    "Kani 0.68.0 / CBMC 6.11.0 / CaDiCaL: bit-precise semantics of MIR as compiled by Kani's pinned nightly toolchain (not the repo's stable toolchain)",
    "alloc::fmt::format is stubbed to return an empty String in harnesses that reach format! (error messages are never inspected); confirmed on every run from Kani's '- Stub:' line",
    "dependencies reached by a harness (write-fonts, font-types, kurbo, ordered-float, smallvec) are verified *through* (CBMC executes their real code); they carry no contracts of their own",
    "glue: the job bodies (impl Work ... exec) that call these kernels take a Context and are not under any contract",
    "Kani proves no termination; loops are unrolled to the stated bound with unwinding assertions on",
]

VERUS_TRUSTED = [
    "Verus 0.2026.09.13 with its bundled Z3; single-file mode on text extracted mechanically from /repo on every run (the extraction log and the diff against the shipped text are written to evidence/)",
]

# per-property assumptions (what the contracts do NOT establish)
ASSUME = {
    "C07": [
        "std::hash::RandomState::new is stubbed to fixed keys ONLY in the two scalar_at harnesses, because VariationRegion carries a HashSet field that scalar_at never reads and whose real constructor reaches a futex syscall Kani cannot model (stub confirmed from Kani's output on every run)",
        "not under contract: regions_for, master_influence (writes tent min/max directly, bypassing Tent::new), delta_weights, deltas_with_rounding, interpolate_from_deltas, LocationSortingHat - i.e. master reproduction, scalar range in n-D and order independence",
        "scalar_at: only the exact cases (peak, outside, missing axis) on ONE axis; 0 <= scalar <= 1 inside a tent is a property of an f64 quotient and is not decided",
    ],
    "C08": [
        "paper lemma (not machine-checked): both normalisation routes are piecewise linear in the user coordinate with breakpoints at the mapping nodes, so exact agreement at the nodes implies agreement between them up to f64 interpolation error and F2Dot14 quantisation",
        "not under contract: CoordConverter::{new,default_normalization,unmapped} (attempted, > 25 min: the converter-level obligation therefore takes a literally written converter of the shape new() builds as its precondition), fontbe::avar::to_segment_map, generate_fvar (takes StaticMetadata), named-instance coordinates, the front ends that build Axis",
    ],
    "C13": [
        "assumed, not proved: Parser forwards every lexeme exactly once to AstSink::token in the presence of the grammar (the thorough tier checks this for the bare Parser+AstSink on inputs <= 2 bytes); AstSink/TreeBuilder/rewrite re-emit every buffered child; grammar loops go through Parser::eat* or progress-checked repeat; validation does not panic; include resolution honours MAX_INCLUDE_DEPTH",
        "the str -> [u8] rewrite drops the UTF-8 type invariant; it returns as the explicit hypothesis utf8_shape of clause T4 only",
        "Kind::from_keyword is external_body in the Verus unit; its assumed contract (never Eof) is checked by the bounded Kani harness c13_from_keyword_never_eof on the real function",
        "known, outside every contract here: `include(` at end of input panics in typed.rs; parser-level diagnostics other than err_before_ws/warn_before_ws are not under contract",
    ],
    "C16": [
        "not under contract: NBox::overlay_onto (HashSet inside: > 10 min even against the empty box), overlay_feature_variations driver (IndexMap), merge_same_*, condition normalisation in fontbe, FeatureVariation record order in fea-rs",
        "Rank obligations are bounded by word count (quick: <= 3 words = 192 rules; thorough: <= 5 words = 320 rules) with arbitrary word contents",
    ],
    "C17": [
        "not under contract: update_composite_limits (HashMap + retain closure; unchecked u16 additions), composite and head bounding boxes (kurbo), x_avg_char_width, first/last char index, add_unicode_range_bits itself (HashSet<u32>: attempted, > 40 min) and code-page bits, the max-context walk over the GSUB/GPOS tables (only its per-rule kernel is) - all read a Context, walk write-fonts tables or are hash-set code",
        "MetricsBuilder::build is bounded by glyph count (quick <= 5, thorough <= 8)",
    ],
    "C19": [
        "not under contract: advances (width.ot_round() into u16 in MetricAndLimitWork::exec; can_reuse_metrics IS under contract but equates two advances that both saturate at 65535 - a consequence of the recorded advance-saturation findings, not re-reported), kerning/anchor values (resolve_variable_metric), GlyphId16::new(gid as u16) in make_variations, point counts `as u16` in MaxBuilder::update, update_composite_limits' unchecked u16 additions (HashMap code, out of CBMC's reach)",
        "upstream guarantee assumed as precondition for the 2x2 clause: |a|,|b|,|c|,|d| <= 2 (has_overflowing_2x2_transforms + decomposition in fontir)",
    ],
}

_EXPL = "Each sample is one proof obligation: a Kani harness in a child module appended to the real source file (or a Verus-verified function of the mechanically extracted lexer) stating pre => call the real function => post; `class: complete` means full input domain (counted in obligations/discharged), `class: bounded` means an input-size bound (listed under coverage.bounded, never counted as proved)."
EXPLAIN = {
    "C07": _EXPL, "C08": _EXPL, "C13": _EXPL, "C16": _EXPL, "C17": _EXPL,
    "C19": "Each sample is one proof obligation: a Kani harness in a child module appended to the real source file, stating pre => call the real function => post over the full input domain; CBMC discharges it bit-precisely including every implicit overflow/cast check.",
}


def trusted_for(prop):
    t = []
    engines = {u["engine"] for u in UNITS.get(prop, [])}
    if "kani" in engines:
        t += KANI_TRUSTED
    if "verus" in engines:
        t += VERUS_TRUSTED
    return t


def assumptions_for(prop):
    return ASSUME.get(prop, []) + trusted_for(prop)


def backends_for(units):
    b = {}
    if any(u["engine"] == "kani" for u in units):
        b["kani"] = "kani 0.68.0 -> cbmc 6.11.0 -> cadical"
    if any(u["engine"] == "verus" for u in units):
        b["verus"] = "verus 0.2026.09.13 -> z3 (bundled)"
    return b
