"""Registry of contract units per property.

Each unit names ONE proof obligation (a Kani harness stating pre => call real fn => post,
or a Verus-verified function), the real functions it puts under contract, and whether it
is `complete` (full input domain; loop-free or loops bounded by a constant of the code) or
`bounded` (loop bound comes from an input size; never counted as proved).

kind:
  obligation  - must verify
  cover       - vacuity guard: every kani::cover! in it must be SATISFIED (reachable)
tiers: which tiers run the unit.
"""

FMT = "alloc :: fmt :: format"  # stub that must be confirmed in Kani's output when needs_fmt_stub

UNITS = {
    # ------------------------------------------------------------------ C19
    "C19": [
        dict(
            obligation="c19_width_class_try_from_total", engine="kani", crate="fontdrasil",
            src="fontdrasil/src/types.rs",
            functions=["fontdrasil::types::<WidthClass as TryFrom<u16>>::try_from"],
            klass="complete", domain="all 65536 u16 values; loop-free",
            pre="v: any u16",
            post="no arithmetic overflow on any path (debug == release); Ok(w) <=> 1 <= v <= 9; w as u16 == v",
            kind="obligation", tiers=["quick", "thorough"], timeout_s=120, needs_fmt_stub=True,
        ),
        dict(
            obligation="c19_width_class_cover", engine="kani", crate="fontdrasil",
            src="fontdrasil/src/types.rs", functions=[], klass="complete", domain="", pre="", post="Ok and Err both reachable",
            kind="cover", tiers=["quick", "thorough"], timeout_s=120, needs_fmt_stub=True,
        ),
        dict(
            obligation="c19_component_offset_rounded_or_rejected", engine="kani", crate="fontbe",
            src="fontbe/src/glyphs.rs", functions=["fontbe::glyphs::create_component_ref_gid"],
            klass="complete", domain="all finite f64 offsets e,f; any u16 glyph id; loop-free",
            pre="e, f finite; 2x2 = identity",
            post="Ok((c,_)) => |c.x - e| <= 0.5 and |c.y - f| <= 0.5 and c.glyph == gid (a stored offset is the rounded source value, never a clamp)",
            kind="obligation", tiers=["quick", "thorough"], timeout_s=120,
        ),
        dict(
            obligation="c19_component_offset_in_range_accepted", engine="kani", crate="fontbe",
            src="fontbe/src/glyphs.rs", functions=["fontbe::glyphs::create_component_ref_gid"],
            klass="complete", domain="all f64 e,f in [-32768, 32767]; loop-free",
            pre="-32768 <= e,f <= 32767",
            post="result is Ok and offsets == floor(v + 0.5) exactly",
            kind="obligation", tiers=["quick", "thorough"], timeout_s=120,
        ),
        dict(
            obligation="c19_component_2x2_within_one_ulp", engine="kani", crate="fontbe",
            src="fontbe/src/glyphs.rs", functions=["fontbe::glyphs::create_component_ref_gid"],
            klass="complete", domain="all f64 a,d in [-2,2]; loop-free",
            pre="-2 <= a,d <= 2 (upstream decomposition guarantee); b = c = 0",
            post="Ok; |F2Dot14 bits - v*16384| <= 1 for xx, yy; xy == yx == 0",
            kind="obligation", tiers=["quick", "thorough"], timeout_s=300,
        ),
        dict(
            obligation="c19_component_cover", engine="kani", crate="fontbe",
            src="fontbe/src/glyphs.rs", functions=[], klass="complete", domain="", pre="", post="Ok reachable incl. large +/- offsets",
            kind="cover", tiers=["quick", "thorough"], timeout_s=120,
        ),
    ],
}


# ------------------------------------------------------------------ C16
def _c16_units():
    us = []
    pairs = [(0, 1), (0, 2), (1, 0), (1, 1), (1, 2), (1, 3), (2, 0), (2, 1), (2, 2), (2, 3), (3, 1), (3, 2), (3, 3)]
    src = "fontir/src/feature_variations.rs"
    for la, lb in pairs:
        bound = f"self has exactly {la} stored u64 words, rhs exactly {lb}; word contents arbitrary (rule indices < {64 * max(la, lb, 1)})"
        us.append(dict(obligation=f"c16_rank_bitor_{la}_{lb}", engine="kani", crate="fontir", src=src,
                       functions=["fontir::feature_variations::<&Rank as BitOr<&Rank>>::bitor"], klass="bounded", domain=bound,
                       pre="a, b arbitrary ranks of the stated word counts", post="val(&a | &b) == val(a) | val(b) (word-wise, aligned at the least significant word)",
                       kind="obligation", tiers=["quick", "thorough"], timeout_s=300))
        us.append(dict(obligation=f"c16_rank_bitor_assign_{la}_{lb}", engine="kani", crate="fontir", src=src,
                       functions=["fontir::feature_variations::<Rank as BitOrAssign<&Rank>>::bitor_assign"], klass="bounded", domain=bound,
                       pre="a, b arbitrary ranks of the stated word counts", post="after a |= &b: val(a') == val(a) | val(b)",
                       kind="obligation", tiers=["quick", "thorough"], timeout_s=300))
        us.append(dict(obligation=f"c16_rank_eq_{la}_{lb}", engine="kani", crate="fontir", src=src,
                       functions=["fontir::feature_variations::<Rank as PartialEq>::eq"], klass="bounded", domain=bound,
                       pre="a, b arbitrary ranks of the stated word counts", post="(a == b) <=> val(a) == val(b); leading zero words are insignificant",
                       kind="obligation", tiers=["quick", "thorough"], timeout_s=300))
    for l in range(4):
        bound = f"exactly {l} stored u64 words, contents arbitrary"
        us.append(dict(obligation=f"c16_rank_shift_{l}", engine="kani", crate="fontir", src=src,
                       functions=["fontir::feature_variations::Rank::right_shift_one"], klass="bounded", domain=bound,
                       pre="a arbitrary", post="val(a') == val(a) / 2 (bit 0 of word j+1 moves into bit 63 of word j)",
                       kind="obligation", tiers=["quick", "thorough"], timeout_s=300))
        us.append(dict(obligation=f"c16_rank_probe_{l}", engine="kani", crate="fontir", src=src,
                       functions=["fontir::feature_variations::Rank::first_bit_is_set", "fontir::feature_variations::Rank::is_all_zeros"], klass="bounded", domain=bound,
                       pre="a arbitrary", post="first_bit_is_set <=> val odd; is_all_zeros <=> val == 0",
                       kind="obligation", tiers=["quick", "thorough"], timeout_s=300))
    us.append(dict(obligation="c16_rank_new_is_power_of_two", engine="kani", crate="fontir", src=src,
                   functions=["fontir::feature_variations::Rank::new"], klass="bounded", domain="rule index i < 192 (1..3 words)",
                   pre="i < 192", post="val(Rank::new(i)) == 2^i", kind="obligation", tiers=["quick", "thorough"], timeout_s=300))
    us.append(dict(obligation="c16_rank_cover", engine="kani", crate="fontir", src=src, functions=[], klass="complete", domain="", pre="",
                   post="generator reaches non-zero multi-word ranks, equal ranks of different length, odd ranks", kind="cover", tiers=["quick", "thorough"], timeout_s=300))
    return us


UNITS["C16"] = _c16_units()

# Assumptions common to every Kani unit (reported in every evidence file)
KANI_TRUSTED = [
    "Kani 0.68.0 / CBMC 6.11.0 / CaDiCaL: bit-precise semantics of MIR as compiled by Kani's pinned nightly toolchain (not the repo's stable toolchain)",
    "alloc::fmt::format is stubbed to return an empty String in harnesses that reach format! (error messages are never inspected); confirmed on every run from Kani's '- Stub:' line",
    "dependencies reached by a harness (write-fonts, font-types, kurbo, ordered-float, smallvec) are verified *through* (CBMC executes their real code); they carry no contracts of their own",
    "glue: the job bodies (impl Work ... exec) that call these kernels take a Context and are not under any contract",
    "Kani proves no termination; loops are unrolled to the stated bound with unwinding assertions on",
]

VERUS_TRUSTED = [
    "Verus 0.2026.09.13 with its bundled Z3; single-file mode on text extracted mechanically from /repo on every run (the extraction log and the diff against the shipped text are written to evidence/)",
]

# per-property assumptions (what the contracts do NOT establish)
ASSUME = {
    "C19": [
        "not under contract: advances (width.ot_round() into u16 in MetricAndLimitWork::exec), kerning/anchor values (resolve_variable_metric), GlyphId16::new(gid as u16) in make_variations, point counts `as u16` in MaxBuilder::update, update_composite_limits' unchecked u16 additions (HashMap code, out of CBMC's reach)",
        "upstream guarantee assumed as precondition for the 2x2 clause: |a|,|b|,|c|,|d| <= 2 (has_overflowing_2x2_transforms + decomposition in fontir)",
    ],
}

EXPLAIN = {
    "C19": "Each sample is one proof obligation: a Kani harness in a child module appended to the real source file, stating pre => call the real function => post over the full input domain; CBMC discharges it bit-precisely including every implicit overflow/cast check.",
}


def trusted_for(prop):
    t = []
    engines = {u["engine"] for u in UNITS.get(prop, [])}
    if "kani" in engines:
        t += KANI_TRUSTED
    if "verus" in engines:
        t += VERUS_TRUSTED
    return t


def assumptions_for(prop):
    return ASSUME.get(prop, []) + trusted_for(prop)


def backends_for(units):
    b = {}
    if any(u["engine"] == "kani" for u in units):
        b["kani"] = "kani 0.68.0 -> cbmc 6.11.0 -> cadical"
    if any(u["engine"] == "verus" for u in units):
        b["verus"] = "verus 0.2026.09.13 -> z3 (bundled)"
    return b
