"""Registry of contract units per property.

Each unit names ONE proof obligation (a Kani harness stating pre => call real fn => post,
or a Verus-verified function), the real functions it puts under contract, and whether it
is `complete` (full input domain; loop-free or loops bounded by a constant of the code) or
`bounded` (loop bound comes from an input size; never counted as proved).

kind:
  obligation  - must verify
  cover       - vacuity guard: every kani::cover! in it must be SATISFIED (reachable)
tiers: which tiers run the unit.
"""

FMT = "alloc :: fmt :: format"  # stub that must be confirmed in Kani's output when needs_fmt_stub

UNITS = {
    # ------------------------------------------------------------------ C19
    "C19": [
        dict(
            obligation="c19_width_class_try_from_total", engine="kani", crate="fontdrasil",
            src="fontdrasil/src/types.rs",
            functions=["fontdrasil::types::<WidthClass as TryFrom<u16>>::try_from"],
            klass="complete", domain="all 65536 u16 values; loop-free",
            pre="v: any u16",
            post="no arithmetic overflow on any path (debug == release); Ok(w) <=> 1 <= v <= 9; w as u16 == v",
            kind="obligation", tiers=["quick", "thorough"], timeout_s=120, needs_fmt_stub=True,
        ),
        dict(
            obligation="c19_width_class_cover", engine="kani", crate="fontdrasil",
            src="fontdrasil/src/types.rs", functions=[], klass="complete", domain="", pre="", post="Ok and Err both reachable",
            kind="cover", tiers=["quick", "thorough"], timeout_s=120, needs_fmt_stub=True,
        ),
    ],
}

# Assumptions common to every Kani unit (reported in every evidence file)
KANI_TRUSTED = [
    "Kani 0.68.0 / CBMC 6.11.0 / CaDiCaL: bit-precise semantics of MIR as compiled by Kani's pinned nightly toolchain (not the repo's stable toolchain)",
    "alloc::fmt::format is stubbed to return an empty String in harnesses that reach format! (error messages are never inspected); confirmed on every run from Kani's '- Stub:' line",
    "dependencies reached by a harness (write-fonts, font-types, kurbo, ordered-float, smallvec) are verified *through* (CBMC executes their real code); they carry no contracts of their own",
    "glue: the job bodies (impl Work ... exec) that call these kernels take a Context and are not under any contract",
    "Kani proves no termination; loops are unrolled to the stated bound with unwinding assertions on",
]

VERUS_TRUSTED = [
    "Verus 0.2026.09.13 with its bundled Z3; single-file mode on text extracted mechanically from /repo on every run (the extraction log and the diff against the shipped text are written to evidence/)",
]

# per-property assumptions (what the contracts do NOT establish)
ASSUME = {
    "C19": [
        "not under contract: advances (width.ot_round() into u16 in MetricAndLimitWork::exec), kerning/anchor values (resolve_variable_metric), GlyphId16::new(gid as u16) in make_variations, point counts `as u16` in MaxBuilder::update, update_composite_limits' unchecked u16 additions (HashMap code, out of CBMC's reach)",
        "upstream guarantee assumed as precondition for the 2x2 clause: |a|,|b|,|c|,|d| <= 2 (has_overflowing_2x2_transforms + decomposition in fontir)",
    ],
}

EXPLAIN = {
    "C19": "Each sample is one proof obligation: a Kani harness in a child module appended to the real source file, stating pre => call the real function => post over the full input domain; CBMC discharges it bit-precisely including every implicit overflow/cast check.",
}


def trusted_for(prop):
    t = []
    engines = {u["engine"] for u in UNITS.get(prop, [])}
    if "kani" in engines:
        t += KANI_TRUSTED
    if "verus" in engines:
        t += VERUS_TRUSTED
    return t


def assumptions_for(prop):
    return ASSUME.get(prop, []) + trusted_for(prop)


def backends_for(units):
    b = {}
    if any(u["engine"] == "kani" for u in units):
        b["kani"] = "kani 0.68.0 -> cbmc 6.11.0 -> cadical"
    if any(u["engine"] == "verus" for u in units):
        b["verus"] = "verus 0.2026.09.13 -> z3 (bundled)"
    return b
