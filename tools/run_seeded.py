#!/usr/bin/env python3
"""Run the registered checks against the independently written breaking changes under seeded/.

For each seeded/<name>/ (patch.diff + meta.json naming the property): copy /repo's working tree to a
scratch directory, apply the patch there (never to /repo), run `./check <property> --tier <tier>`
against the copy (FV_REPO) with evidence redirected (FV_OUT), and record exit status, the failed
obligations and the VIOLATION lines in seeded/<name>/result.json.

usage: tools/run_seeded.py [--only name[,name]] [--tier quick] [--scratch DIR]
"""
import argparse
import json
import os
import re
import shutil
import subprocess
import sys
import time
from pathlib import Path

HERE = Path(__file__).resolve().parents[1]


def main() -> int:
    ap = argparse.ArgumentParser()
    ap.add_argument("--only")
    ap.add_argument("--tier", default="quick")
    ap.add_argument("--scratch", help="FV_SCRATCH to reuse (development; incremental builds)")
    ap.add_argument("--props", help="override: comma separated properties to run instead of meta.property")
    ap.add_argument("--root", default="seeded", help="directory under /verif holding <name>/patch.diff + meta.json (seeded = breaking changes, refactors = behaviour-preserving edits that must NOT raise an alarm)")
    args = ap.parse_args()
    names = sorted(p.name for p in (HERE / args.root).iterdir() if (p / "patch.diff").exists())
    if args.only:
        keep = set(args.only.split(","))
        names = [n for n in names if n in keep]
    root = Path(f"/var/tmp/fontc-verif-seeded.{os.getpid()}")
    summary = []
    try:
        for name in names:
            d = HERE / args.root / name
            meta = json.loads((d / "meta.json").read_text())
            props = args.props.split(",") if args.props else meta.get("checks_to_run", [meta["property"]])
            mut = root / "repo-mut"
            if mut.exists():
                shutil.rmtree(mut)
            mut.parent.mkdir(parents=True, exist_ok=True)
            subprocess.run(["rsync", "-a", "--exclude", "/target", "--exclude", ".git", "/repo/", f"{mut}/"], check=True)
            ap_ = subprocess.run(["patch", "-p1", "--no-backup-if-mismatch", "-i", str(d / "patch.diff")], cwd=mut, capture_output=True, text=True)
            if ap_.returncode != 0:
                print(f"SEEDED {name}: patch does not apply: {ap_.stdout[-300:]}")
                summary.append({"name": name, "applied": False})
                continue
            runs = []
            for prop in props:
                env = dict(os.environ, FV_REPO=str(mut), FV_OUT=str(root / "out"))
                if args.scratch:
                    env["FV_SCRATCH"] = args.scratch
                t0 = time.time()
                p = subprocess.run([str(HERE / "check"), prop, "--tier", args.tier], env=env, capture_output=True, text=True)
                dt = time.time() - t0
                failed = re.findall(r"FAILED-OBLIGATION property=\S+ obligation=(\S+) replayed_on_real_code=(\S+)", p.stdout)
                viol = [l for l in p.stdout.splitlines() if l.startswith("VIOLATION ")]
                und = [l for l in p.stdout.splitlines() if l.startswith("UNDECIDED ")]
                runs.append({"property": prop, "tier": args.tier, "exit": p.returncode, "failed_obligations": [{"obligation": o, "replayed_on_real_code": r} for o, r in failed],
                             "violation_lines": viol, "undecided": und[:6], "wall_s": round(dt, 1), "summary_line": p.stdout.strip().splitlines()[-1] if p.stdout.strip() else ""})
                print(f"SEEDED {name} [{prop}/{args.tier}]: exit={p.returncode} failed={[o for o, _ in failed]} undecided={len(und)} ({dt:.0f}s)", flush=True)
            detected = any(r["exit"] == 1 and r["violation_lines"] for r in runs)
            res = {"name": name, "applied": True, "detected": detected, "runs": runs}
            (d / "result.json").write_text(json.dumps(res, indent=1) + "\n")
            summary.append(res)
    finally:
        shutil.rmtree(root, ignore_errors=True)
    det = sum(1 for s in summary if s.get("detected"))
    print(f"{args.root}: {det}/{len(summary)} raised a VIOLATION (exit 1)")
    return 0


if __name__ == "__main__":
    sys.exit(main())
