#!/usr/bin/env python3
"""Confirm an independently written breaking change in its scratch worktree (never /repo):

  1. clean tree + demo  -> demo passes
  2. patch + demo       -> demo FAILS
  3. patch, no demo     -> the existing tests of the given crates still pass
                           (the 3 fea-rs tests that need network fail on the clean tree too and are ignored)
  4. worktree restored

usage: confirm_seed.py <worktree> <patch> <demo.rs> <file to append the demo to> <demo filter> <crate>[,<crate>...] [--release-demo]
The demo is inserted before the last closing brace of <file> (i.e. inside its trailing `mod tests`),
or copied as an integration test when <file> ends with /tests/<name>.rs and does not exist.
Prints a JSON summary.
"""
import json
import re
import subprocess
import sys
from pathlib import Path

KNOWN_BASELINE_FAILS = {"tests::compile::fonttools_tests", "tests::compile::import_resolution", "tests::compile::should_pass"}


def sh(cmd, cwd, timeout=7200):
    p = subprocess.run(cmd, cwd=cwd, capture_output=True, text=True, timeout=timeout)
    return p.returncode, p.stdout + p.stderr


def failed_tests(out):
    return set(re.findall(r"^test (\S+) \.\.\. FAILED", out, re.M))


def main():
    wt, patch, demo, target, filt, crates = sys.argv[1:7]
    release_demo = "--release-demo" in sys.argv
    wt = Path(wt)
    crates = crates.split(",")
    res = {"worktree": str(wt), "patch": patch, "demo": demo, "inserted_into": target, "filter": filt, "crates": crates}
    sh(["git", "checkout", "--", "."], wt)
    tfile = wt / target
    new_file = not tfile.exists()
    demo_text = Path(demo).read_text()

    def put_demo():
        if new_file:
            tfile.parent.mkdir(parents=True, exist_ok=True)
            tfile.write_text(demo_text)
        else:
            t = tfile.read_text().rstrip()
            i = t.rfind("}")
            tfile.write_text(t[:i] + "\n" + demo_text + "\n}\n")

    def drop_demo():
        if new_file:
            tfile.unlink(missing_ok=True)
        else:
            sh(["git", "checkout", "--", target], wt)

    crate0 = target.split("/")[0]
    demo_cmd = ["cargo", "test", "--offline", "-p", crate0] + (["--release"] if release_demo else []) + (["--test", tfile.stem] if new_file else ["--lib"]) + [filt]
    # 1 clean + demo
    put_demo()
    rc, out = sh(demo_cmd, wt)
    res["clean_demo_passes"] = rc == 0 and bool(re.search(r"test result: ok\. [1-9]", out))
    res["clean_demo_tail"] = out[-600:] if not res["clean_demo_passes"] else ""
    drop_demo()
    # 2 patch + demo
    rc, out = sh(["git", "apply", patch], wt)
    res["patch_applies"] = rc == 0
    put_demo()
    rc, out = sh(demo_cmd, wt)
    res["patched_demo_fails"] = rc != 0 and bool(failed_tests(out))
    res["patched_demo_failure"] = "\n".join(l for l in out.splitlines() if "panicked" in l or "assertion" in l or "left:" in l or "right:" in l)[:800]
    drop_demo()
    if not new_file:
        # drop_demo restored the file from git: re-apply the patch
        sh(["git", "checkout", "--", "."], wt)
        sh(["git", "apply", patch], wt)
    # 3 patch, existing tests
    cmd = ["cargo", "test", "--offline", "--no-fail-fast"]
    for c in crates:
        cmd += ["-p", c]
    rc, out = sh(cmd, wt)
    ft = failed_tests(out) - KNOWN_BASELINE_FAILS
    res["existing_tests_cmd"] = " ".join(cmd)
    res["existing_tests_pass_with_patch"] = not ft and "error: could not compile" not in out
    res["unexpected_failures"] = sorted(ft)
    res["tests_ok_count"] = len(re.findall(r"^test \S+ \.\.\. ok", out, re.M))
    sh(["git", "checkout", "--", "."], wt)
    res["confirmed"] = bool(res["clean_demo_passes"] and res["patch_applies"] and res["patched_demo_fails"] and res["existing_tests_pass_with_patch"])
    print(json.dumps(res, indent=1))
    return 0 if res["confirmed"] else 1


if __name__ == "__main__":
    sys.exit(main())
