#!/usr/bin/env python3
"""Development helper: run named Kani harnesses of one crate on the current /repo + injected contracts through the
same driver the checks use (per-harness timeout, RSS watchdog), without touching evidence.
usage: FV_SCRATCH=/var/tmp/fv-devN tools/try_harness.py <crate> <timeout_s> <harness> [<harness>...]"""
import json
import sys
from pathlib import Path
HERE = Path(__file__).resolve().parents[1]
sys.path.insert(0, str(HERE / "lib"))
from fv import core  # noqa: E402

crate, timeout_s, harnesses = sys.argv[1], int(sys.argv[2]), sys.argv[3:]
scratch = core.Scratch()
done, lost = core.inject_kani(scratch)  # all crates: a harness may use helpers injected into a dependency
print("lost anchors:", lost)
recs, meta = core.run_kani(scratch, crate, harnesses, timeout_s, jobs=max(2, min(4, len(harnesses))))
for h, r in recs.items():
    print(h, r["status"], r.get("reason"), r.get("solver_s"), r.get("checks_total"), [c["description"][:80] for c in r.get("failed_checks", [])][:3])
print(json.dumps({k: v for k, v in meta.items() if k != "output_tail"})[:600])
