#!/usr/bin/env python3
"""Regenerate /verif/MANIFEST.json from contracts/registry.py and contracts/manifest_text.py."""
import json
import sys
from pathlib import Path

HERE = Path(__file__).resolve().parents[1]
sys.path.insert(0, str(HERE / "contracts"))
import registry  # noqa: E402
import manifest_text as mt  # noqa: E402

props = [json.loads(l) for l in (HERE / "properties.jsonl").read_text().splitlines() if l.strip()]
ids = [p["id"] for p in props]

checks = []
for pid in ids:
    if pid not in registry.UNITS:
        continue
    c = mt.CLAIMS[pid]
    checks.append({
        "property_id": pid,
        "quick_cmd": f"./check {pid} --tier quick",
        "thorough_cmd": f"./check {pid} --tier thorough",
        "evidence_file": f"/verif/evidence/{pid}.json",
        "replay_cmd_template": f"./check {pid} --replay {{path}}",
        "engine": c["engine"],
        "level_claimed": {"category": c.get("category", "proof"), "text": c["text"], "design_ref": c["design_ref"]},
        "level_note": c["note"],
        "technique": c["technique"],
    })

na = [{"property_id": pid, "reason": mt.NOT_APPLICABLE[pid]} for pid in ids if pid not in registry.UNITS]
missing = [pid for pid in ids if pid not in registry.UNITS and pid not in mt.NOT_APPLICABLE]
assert not missing, missing

manifest = {
    "version": 1,
    "setup_cmd": "./tools/setup.sh",
    "hooks": {
        "guard": "cfg(kani) (set only by cargo-kani); no cfg at all for the Verus unit",
        "enable": "no hook is committed in /repo: ./check copies /repo's working tree to a scratch directory under /var/tmp, appends contracts/kani/*.inject as a child `#[cfg(kani)] mod verif_kani` to the real source files (no existing line changes) and extracts the lexer for Verus; the scratch copy and its build output are deleted at exit",
        "baseline_off_cmd": "cd /repo && cargo test --workspace --no-fail-fast --offline",
        "source_commits": [],
        "add_only": True,
    },
    "engines": mt.ENGINES,
    "checks": checks,
    "not_applicable": na,
    "notes": mt.NOTES,
}
(HERE / "MANIFEST.json").write_text(json.dumps(manifest, indent=1) + "\n")
print(f"MANIFEST.json: {len(checks)} checks, {len(na)} not applicable")
