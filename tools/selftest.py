#!/usr/bin/env python3
"""Self-test by deliberate breakage (DESIGN §3.5).

For each entry of MUTATIONS: copy /repo's working tree to a scratch directory, apply ONE small
source edit that still compiles, run the property's check against the copy (FV_REPO), and require
exit 1 with a VIOLATION line naming the expected obligation.  Nothing is written to /repo, and the
evidence of the real tree is not touched (FV_OUT).

usage: tools/selftest.py [--only NAME[,NAME]] [--tier quick] [--list]
"""
import argparse
import json
import os
import re
import shutil
import subprocess
import sys
import time
from pathlib import Path

HERE = Path(__file__).resolve().parents[1]

MUTATIONS = [
    # name, property, file, (old, new), expected failing obligation (regex)
    ("tent_new_branch_swapped", "C07", "fontdrasil/src/variations.rs",
     ("        if peak > zero {\n            min = zero;\n        } else {\n            max = zero;\n        }",
      "        if peak > zero {\n            max = zero;\n        } else {\n            min = zero;\n        }"), r"c07_tent_new"),
    ("tent_validate_allows_spanning_zero", "C07", "fontdrasil/src/variations.rs",
     ("        if min < ZERO && max > ZERO {\n            return false;\n        }", "        if min < ZERO && max > ZERO && peak != ZERO {\n            return false;\n        }"), r"c07_tent_validate_iff_spec"),
    ("plm_map_uses_found_index_not_first", "C08", "fontdrasil/src/piecewise_linear_map.rs",
     ("            Ok(_) => {", "            Ok(found) => {\n                return self.to[found];"), r"c08_plm_map_duplicates_first_wins_3"),
    ("plm_new_sorts_by_to", "C08", "fontdrasil/src/piecewise_linear_map.rs",
     ("        mappings.sort();", "        mappings.sort_by_key(|(_, to)| *to);"), r"c08_plm_new_sorted_permutation_3"),
    ("lexer_eat_ident_no_eof_break", "C13", "fea-rs/src/parse/lexer.rs",
     ("                EOF => break,\n                b if is_ascii_whitespace(b) => break,", "                b if is_ascii_whitespace(b) => break,"), r"verus_lexer_eat_ident"),
    ("lexer_nul_is_eof_again", "C13", "fea-rs/src/parse/lexer.rs",
     ("            EOF if first.is_none() => Kind::Eof,", "            EOF => Kind::Eof,"), r"verus_lexer_next_token"),
    ("lexer_ident_stops_inside_multibyte", "C13", "fea-rs/src/parse/lexer.rs",
     ("                b if is_special(b) => break,\n                _ => (),", "                b if is_special(b) => break,\n                0xA0 => break,\n                _ => (),"), r"verus_lexer_(eat_ident|next_token|ident)"),
    ("plm_new_sorts_by_from_only", "C08", "fontdrasil/src/piecewise_linear_map.rs",
     ("        mappings.sort();", "        mappings.sort_by_key(|(from, _)| *from);"), r"c08_plm_new_sorted_permutation_3"),
    ("plm_reverse_does_not_resort", "C08", "fontdrasil/src/piecewise_linear_map.rs",
     ("        PiecewiseLinearMap::new(mappings)\n    }\n\n    /// An iterator over (from, to) values.", "        let (from, to): (Vec<_>, Vec<_>) = { let m: Vec<(OrderedFloat<f64>, OrderedFloat<f64>)> = mappings; m.into_iter().unzip() };\n        PiecewiseLinearMap { from, to }\n    }\n\n    /// An iterator over (from, to) values."), r"c08_plm_reverse_(well_formed|inverts)"),
    ("rank_count_ones_last_word_only", "C16", "fontir/src/feature_variations.rs",
     ("        self.0.iter().copied().map(u64::count_ones).sum()", "        self.0.last().map(|w| w.count_ones()).unwrap_or(0)"), r"c16_rank_sort_key_orders_by_rule_count_"),
    ("vertical_origin_rounds_half_away_from_zero", "C19", "fontir/src/ir.rs",
     ("            .unwrap_or(metrics.os2_typo_ascender.into_inner())\n            .ot_round()", "            .unwrap_or(metrics.os2_typo_ascender.into_inner())\n            .round()\n            .ot_round()"), r"c19_vertical_origin_in_range_is_exact_rounding"),
    ("glyph_height_wraps", "C19", "fontir/src/ir.rs",
     ("                metrics.os2_typo_ascender.into_inner() - metrics.os2_typo_descender.into_inner()\n            })\n            .ot_round()", "                metrics.os2_typo_ascender.into_inner() - metrics.os2_typo_descender.into_inner()\n            })\n            .round() as i64 as u16"), r"c19_glyph_height_out_of_range_never_wraps"),
    # --- mutations aimed at obligations that no seeded change had exercised (vacuity check of the contracts) ---
    ("tent_has_non_zero_looks_at_peak_only", "C07", "fontdrasil/src/variations.rs",
     ("        (zero, zero, zero) != (self.min, self.peak, self.max)", "        zero != self.peak"), r"c07_tent_zeroes_and_has_non_zero"),
    ("tent_region_coords_start_end_swapped", "C07", "fontdrasil/src/variations.rs",
     ("            start_coord: self.min.to_f2dot14(),", "            start_coord: self.max.to_f2dot14(),"), r"c07_tent_region_axis_coords_valid"),
    ("location_dedup_keeps_first_value", "C07", "fontdrasil/src/coords.rs",
     ("                *b_val = *a_val;\n", ""), r"c07_location_from_vec_is_a_map_3"),
    ("avar_default_map_last_pair_wrong", "C08", "fontbe/src/avar.rs",
     ("        AxisValueMap::new(F2Dot14::from_f32(1.0), F2Dot14::from_f32(1.0)),", "        AxisValueMap::new(F2Dot14::from_f32(1.0), F2Dot14::from_f32(0.9)),"), r"c08_avar_default_segment_map_is_required_triple"),
    ("user_coord_to_fixed_truncates", "C08", "fontdrasil/src/coords.rs",
     ("        Fixed::from_f64(value.to_f64())", "        Fixed::from_i32(value.to_f64() as i32)"), r"c08_user_coord_into_fixed_is_nearest_16_16"),
    ("normalized_to_f2dot14_via_f32", "C08", "fontdrasil/src/coords.rs",
     ("impl From<NormalizedCoord> for F2Dot14 {\n    fn from(value: NormalizedCoord) -> Self {\n        F2Dot14::from_f64(value.to_f64())", "impl From<NormalizedCoord> for F2Dot14 {\n    fn from(value: NormalizedCoord) -> Self {\n        F2Dot14::from_f32(value.to_f64() as f32)"), r"c08_normalized_coord_into_f2dot14_is_nearest_2_14"),
    ("from_keyword_anon_is_eof", "C13", "fea-rs/src/parse/lexer/lexeme.rs",
     ('            b"anon" | b"anonymous" => Some(Kind::AnonKw),', '            b"anon" => Some(Kind::Eof),\n            b"anonymous" => Some(Kind::AnonKw),'), r"c13_from_keyword_never_eof"),
    ("rank_new_bit_mod_32", "C16", "fontir/src/feature_variations.rs",
     ("        buf[idx] = 1 << bit;", "        buf[idx] = 1 << (bit % 32);"), r"c16_rank_new_is_power_of_two"),
    ("rank_first_bit_looks_at_first_word", "C16", "fontir/src/feature_variations.rs",
     ("        (self.0.last().copied().unwrap_or_default() & 1) > 0", "        (self.0.first().copied().unwrap_or_default() & 1) > 0"), r"c16_rank_probe_"),
    ("unicode_ranges_two_entries_swapped", "C17", "fontbe/src/os2.rs",
     ("    (0x0250, 0x02AF, 4),      // IPA Extensions\n    (0x02B0, 0x02FF, 5),      // Spacing Modifier Letters\n", "    (0x02B0, 0x02FF, 5),      // Spacing Modifier Letters\n    (0x0250, 0x02AF, 4),      // IPA Extensions\n"), r"c17_unicode_ranges_table_well_formed"),
    ("plm_map_returns_previous_node", "C08", "fontdrasil/src/piecewise_linear_map.rs",
     ("                self.to[first]\n", "                self.to[first.saturating_sub(1)]\n"), r"c08_plm_map_exact_at_nodes_"),
    ("plm_reverse_zips_to_with_to", "C08", "fontdrasil/src/piecewise_linear_map.rs",
     ("            .zip(self.from.iter().copied())\n            .collect();\n        PiecewiseLinearMap::new(mappings)", "            .zip(self.to.iter().copied())\n            .collect();\n        PiecewiseLinearMap::new(mappings)"), r"c08_plm_reverse_inverts_at_nodes_3"),
    ("lexer_new_starts_at_1", "C13", "fea-rs/src/parse/lexer.rs",
     ("            input,\n            pos: 0,", "            input,\n            pos: 1,"), r"verus_lexer_new"),
    ("lexer_bump_always_advances", "C13", "fea-rs/src/parse/lexer.rs",
     ("        self.pos += usize::from(next.is_some());", "        self.pos += 1;"), r"verus_lexer_bump"),
    ("lexer_nth_off_by_one", "C13", "fea-rs/src/parse/lexer.rs",
     ("            .get(self.pos + index)", "            .get(self.pos + index + 1)"), r"verus_lexer_nth"),
    ("lexer_whitespace_looks_one_ahead", "C13", "fea-rs/src/parse/lexer.rs",
     ("        while is_ascii_whitespace(self.nth(0)) {", "        while is_ascii_whitespace(self.nth(1)) {"), r"verus_lexer_whitespace"),
    ("lexer_string_other_bytes_not_consumed", "C13", "fea-rs/src/parse/lexer.rs",
     ("                EOF => break Kind::StringUnterminated,\n                _ => {\n                    self.bump();\n                }", "                EOF => break Kind::StringUnterminated,\n                _ => {}"), r"verus_lexer_string"),
    ("lexer_number_hex_prefix_skips_two", "C13", "fea-rs/src/parse/lexer.rs",
     ('            if b"xX".contains(&self.nth(0)) {\n                self.bump();\n                if self.nth(0).is_ascii_hexdigit() {', '            if b"xX".contains(&self.nth(0)) {\n                self.pos += 2;\n                if self.nth(0).is_ascii_hexdigit() {'), r"verus_lexer_number"),
    ("lexer_decimal_digits_look_one_ahead", "C13", "fea-rs/src/parse/lexer.rs",
     ("        while self.nth(0).is_ascii_digit() {", "        while self.nth(1).is_ascii_digit() {"), r"verus_lexer_eat_decimal_digits"),
    ("lexer_hex_digits_look_one_ahead", "C13", "fea-rs/src/parse/lexer.rs",
     ("        while self.nth(0).is_ascii_hexdigit() {", "        while self.nth(1).is_ascii_hexdigit() {"), r"verus_lexer_eat_hex_digits"),
    ("lexer_octal_digits_look_one_ahead", "C13", "fea-rs/src/parse/lexer.rs",
     ("        while matches!(self.nth(0), b'0'..=b'7') {", "        while matches!(self.nth(1), b'0'..=b'7') {"), r"verus_lexer_eat_octal_digits"),
    ("lexer_cid_skips_a_byte", "C13", "fea-rs/src/parse/lexer.rs",
     ("        self.eat_decimal_digits();\n        Kind::Cid", "        self.eat_decimal_digits();\n        self.pos += 1;\n        Kind::Cid"), r"verus_lexer_cid"),
    ("lexer_glyph_class_name_skips_a_byte", "C13", "fea-rs/src/parse/lexer.rs",
     ("        self.eat_ident();\n        Kind::NamedGlyphClass", "        self.eat_ident();\n        self.pos += 1;\n        Kind::NamedGlyphClass"), r"verus_lexer_glyph_class_name"),
    ("lexer_ident_start_pos_wrong_slice", "C13", "fea-rs/src/parse/lexer.rs",
     ("        let raw_token = &self.input.as_bytes()[start_pos..self.pos];", "        let raw_token = &self.input.as_bytes()[start_pos..self.pos + 1];"), r"verus_lexer_ident"),
    ("lexer_hyphen_skips_a_byte", "C13", "fea-rs/src/parse/lexer.rs",
     ("        if self.nth(0).is_ascii_digit() {\n            return self.number(false);\n        }\n\n        Kind::Hyphen", "        if self.nth(0).is_ascii_digit() {\n            return self.number(false);\n        }\n        self.pos += 1;\n        Kind::Hyphen"), r"verus_lexer_hyphen_or_minus"),
    ("lexer_is_special_accepts_high_bytes", "C13", "fea-rs/src/parse/lexer.rs",
     ("        || byte == 123\n        || byte == 125", "        || byte == 123\n        || byte == 125\n        || byte >= 200"), r"verus_lexer_is_special"),
    ("token_set_mask_aliases_kinds", "C13", "fea-rs/src/parse/lexer/token_set.rs",
     ("    1u128 << (kind as usize)", "    1u128 << (kind as usize % 64)"), r"c13_token_set_is_a_set_of_kinds"),
    ("to_token_kind_panics_on_dollar", "C13", "fea-rs/src/parse/lexer/lexeme.rs",
     ("            Self::StringUnterminated | Self::HexEmpty | Self::Tombstone => {", "            Self::StringUnterminated | Self::HexEmpty | Self::Tombstone | Self::Hyphen => {"), r"c13_to_token_kind_total_for_every_forwarded_kind"),
    ("glyphs_number_split_counts_leading_digits_again", "C13", "fea-rs/src/parse/grammar/metrics.rs",
     ("                let decimal_len = text.as_bytes()[len + 1..]\n", "                let decimal_len = text.as_bytes()\n"), r"c13_glyphs_number_ident_split_tiles_the_token_up_to_4_bytes"),
    ("validate_glyph_name_position_off_by_one", "C13", "fea-rs/src/parse/grammar/glyph.rs",
     ("                _ => return NameType::Invalid(idx + 1),", "                _ => return NameType::Invalid(idx + 2),"), r"c13_validate_glyph_name_total_and_positions_in_range"),
    ("max_context_chained_ignores_lookahead", "C17", "fontbe/src/os2/max_context.rs",
     ("        ContextualRuleType::Chained => input_glyph_count + lookahead_glyph_count,", "        ContextualRuleType::Chained => input_glyph_count,"), r"c17_max_context_of_rule_is_exact"),
    ("rounding_behaviour_truncates", "C07", "fontdrasil/src/variations.rs",
     ("            RoundingBehaviour::RoundTiesEven => value.round_ties_even(),", "            RoundingBehaviour::RoundTiesEven => value,"), r"c07_rounding_behaviour_apply_within_half"),
    ("phantom_points_advance_not_rounded", "C19", "fontir/src/ir.rs",
     ("        points.push(Point::new(advance_width as f64, 0.0)); // rightSideX, 0", "        points.push(Point::new(self.width, 0.0)); // rightSideX, 0"), r"c19_phantom_points_carry_the_rounded_advance"),
    ("positional_diagnostic_one_byte_range_again", "C13", "fea-rs/src/parse/parser.rs",
     ("        pos..pos + len\n", "        pos..pos + 1 + len - len\n"), r"c13_positional_diagnostics_lie_inside_the_source"),
    ("design_to_normalized_uses_the_wrong_map", "C08", "fontdrasil/src/coords.rs",
     ("        Coord::new(converter.design_to_normalized.map(coord.coord))", "        Coord::new(converter.design_to_user.map(coord.coord))"), r"c08_converter_sends_nodes_to_minus1_0_plus1_3"),
    ("rank_shift_carry_into_bit_62", "C16", "fontir/src/feature_variations.rs",
     ("            *val |= carry_bit << 63;", "            *val |= carry_bit << 62;"), r"c16_rank_shift_"),
    ("rank_bitor_assign_front_aligned", "C16", "fontir/src/feature_variations.rs",
     ("            .rev()\n            .zip(rhs.0.iter().rev())\n            .for_each", "            .zip(rhs.0.iter())\n            .for_each"), r"c16_rank_bitor_assign_"),
    ("nbox_insert_no_upper_clamp", "C16", "fontir/src/feature_variations.rs",
     ("            .unwrap_or(NormalizedCoord::MAX)\n            .min(NormalizedCoord::MAX);", "            .unwrap_or(NormalizedCoord::MAX);"), r"c16_nbox_insert_get_clamps"),
    ("metrics_build_run_off_by_one", "C17", "fontbe/src/metrics_and_limits.rs",
     ("            lsb_run - 1\n", "            lsb_run\n"), r"c17_metrics_build_contract"),
    ("metrics_update_extent_uses_min", "C17", "fontbe/src/metrics_and_limits.rs",
     ("self.max_extent.map(|v| max(v, extent))", "self.max_extent.map(|v| min(v, extent))"), r"c17_metrics_update_contract"),
    ("metrics_update_empty_glyph_counts_for_lsb", "C17", "fontbe/src/metrics_and_limits.rs",
     ("        if let Some(bounds_advance) = bounds_advance {", "        if let Some(bounds_advance) = bounds_advance.or(Some(0)) {"), r"c17_metrics_update_contract"),
    ("width_class_sub_before_check", "C19", "fontdrasil/src/types.rs",
     ("        value\n            .checked_sub(1)\n            .and_then(|idx| WidthClass::all_values().get(idx as usize))", "        WidthClass::all_values()\n            .get((value - 1) as usize)"), r"c19_width_class_try_from_total"),
    ("width_class_nearest_skips_first_class", "C19", "fontdrasil/src/types.rs",
     ("            .iter()\n            .map(|v| (*v, (v.to_percent() - percent).abs()))", "            .iter()\n            .skip(1)\n            .map(|v| (*v, (v.to_percent() - percent).abs()))"), r"c19_width_class_nearest_is_a_valid_and_nearest_class"),
    ("use_my_metrics_ignores_x_offset", "C19", "fontbe/src/glyphs.rs",
     ("    coeffs[4] = coeffs[4].ot_round();\n    coeffs[5] = 0.0;", "    coeffs[4] = 0.0;\n    coeffs[5] = 0.0;"), r"c19_use_my_metrics_only_when"),
    ("use_my_metrics_compares_wrapped_advances", "C19", "fontbe/src/glyphs.rs",
     ("    let width: u16 = glyph.width.ot_round();\n    let component_width: u16 = component_glyph.width.ot_round();",
      "    let width: u16 = (glyph.width + 0.5).floor() as i64 as u16;\n    let component_width: u16 = (component_glyph.width + 0.5).floor() as i64 as u16;"), r"c19_use_my_metrics_never_equates"),
    ("component_offset_clamped_again", "C19", "fontbe/src/glyphs.rs",
     ("    if !fits_i16(x) || !fits_i16(y) {", "    if !fits_i16(x) && !fits_i16(y) {"), r"c19_component_offset_rounded_or_rejected"),
]


def main() -> int:
    ap = argparse.ArgumentParser()
    ap.add_argument("--only")
    ap.add_argument("--tier", default="quick")
    ap.add_argument("--list", action="store_true")
    ap.add_argument("--keep-scratch", default=None, help="reuse this scratch dir for incremental builds (development)")
    args = ap.parse_args()
    muts = MUTATIONS
    if args.only:
        keep = set(args.only.split(","))
        muts = [m for m in muts if m[0] in keep]
    if args.list:
        for m in muts:
            print(m[0], m[1], m[2])
        return 0
    root = Path(f"/var/tmp/fontc-verif-selftest.{os.getpid()}")
    results = []
    try:
        for name, prop, rel, (old, new), expect in muts:
            mut_repo = root / "repo-mut"
            if mut_repo.exists():
                shutil.rmtree(mut_repo)
            mut_repo.parent.mkdir(parents=True, exist_ok=True)
            subprocess.run(["rsync", "-a", "--exclude", "/target", "--exclude", ".git", "/repo/", f"{mut_repo}/"], check=True)
            f = mut_repo / rel
            text = f.read_text()
            if text.count(old) != 1:
                results.append({"mutation": name, "property": prop, "ok": False, "why": f"mutation site matches {text.count(old)} times (expected 1): the code changed, update the self-test"})
                print(f"SELFTEST {name}: SKIP (site not found)")
                continue
            f.write_text(text.replace(old, new))
            env = dict(os.environ, FV_REPO=str(mut_repo), FV_OUT=str(root / "out"))
            if os.environ.get("FV_SELFTEST_NO_COMPANIONS"):
                env["FV_NO_ON_DEMAND"] = "1"
            if args.keep_scratch:
                env["FV_SCRATCH"] = args.keep_scratch
            t0 = time.time()
            p = subprocess.run([str(HERE / "check"), prop, "--tier", args.tier], env=env, capture_output=True, text=True)
            dt = time.time() - t0
            failed = re.findall(r"FAILED-OBLIGATION property=\S+ obligation=(\S+) replayed_on_real_code=(\S+)", p.stdout)
            viol = [l for l in p.stdout.splitlines() if l.startswith("VIOLATION ")]
            hit = [o for o, _ in failed if re.search(expect, o)]
            ok = p.returncode == 1 and bool(viol) and bool(hit)
            results.append({"mutation": name, "property": prop, "file": rel, "exit": p.returncode, "failed_obligations": failed, "expected": expect, "ok": ok, "wall_s": round(dt, 1),
                            "undecided": [l for l in p.stdout.splitlines() if l.startswith("UNDECIDED")][:5]})
            print(f"SELFTEST {name} [{prop}]: {'DETECTED' if ok else 'MISSED'} exit={p.returncode} failed={failed} ({dt:.0f}s)", flush=True)
            (root / "partial_results.json").write_text(json.dumps({"results": results}, indent=1))
            if not ok:
                print(p.stdout[-1500:])
                print(p.stderr[-1500:])
    finally:
        shutil.rmtree(root, ignore_errors=True)
    out = HERE / "selftest_results.json"
    merged = {"results": []}
    if args.only and out.exists():
        try:
            merged = json.loads(out.read_text())
        except Exception:
            merged = {"results": []}
    done = {r["mutation"] for r in results}
    merged["results"] = [r for r in merged.get("results", []) if r.get("mutation") not in done] + results
    out.write_text(json.dumps(merged, indent=1) + "\n")
    missed = [r for r in results if not r["ok"]]
    print(f"selftest: {len(results) - len(missed)}/{len(results)} mutations detected; results in {out}")
    return 1 if missed else 0


if __name__ == "__main__":
    sys.exit(main())
