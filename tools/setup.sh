#!/bin/sh
# Offline setup: nothing is built ahead of time (every check rebuilds from /repo's working tree
# in a scratch copy); this only verifies that the verifiers are present and the registry loads.
set -e
cd "$(dirname "$0")/.."
command -v cargo-kani >/dev/null || { echo "cargo-kani missing"; exit 1; }
command -v verus >/dev/null || { echo "verus missing"; exit 1; }
command -v rsync >/dev/null || { echo "rsync missing"; exit 1; }
python3 - <<'PY'
import sys
sys.path.insert(0, "contracts"); sys.path.insert(0, "lib")
import registry
from fv import core
n = sum(len(v) for v in registry.UNITS.values())
print(f"registry ok: {len(registry.UNITS)} properties, {n} units")
PY
mkdir -p evidence replay
echo "setup ok"
